#!/bin/bash
# usage: tools/confirm_mutant.sh <mutant dir with patch.diff demo.py> <scratch worktree>
# Confirms: patch applies, repo tests pass with it, demo fails with it and passes without it.
d="$1"; wt="$2"
cd "$wt" || exit 2
git checkout -q -- .
git apply "$d/patch.diff" || { echo "APPLY-FAIL"; exit 2; }
t=$(/venv/bin/python -m pytest -q -p no:cacheprovider 2>&1 | tail -1)
cp "$d/demo.py" ./_demo.py
timeout 900 /venv/bin/python _demo.py >/dev/null 2>&1; with=$?
git checkout -q -- .
timeout 900 /venv/bin/python _demo.py >/dev/null 2>&1; without=$?
rm -f _demo.py
echo "tests: $t | demo with change: exit $with | demo without: exit $without"
if [ "$with" != 0 ] && [ "$without" = 0 ] && echo "$t" | grep -q "161 passed"; then echo CONFIRMED; else echo NOT-CONFIRMED; fi
