#!/venv/bin/python
"""usage: tools/deep_probe.py <Cxx: c17|c18> <limits> <bound> <switches e.g. 1000> [policies n]
Ad-hoc deeper exploration of one CTE oracle (not a registered check)."""
import os, sys, json
if os.environ.get('PYTHONHASHSEED') != '0':
    os.environ['PYTHONHASHSEED'] = '0'; os.execv(sys.executable, [sys.executable] + sys.argv)
sys.path.insert(0, os.path.dirname(os.path.dirname(os.path.abspath(__file__))))
a = list(sys.argv)
from mc import common
common.install_arena_cache()
from mc import explore, pipeline
from mc.pipeline import Config
import importlib
mod = importlib.import_module('mc.props.' + a[1])
sw = tuple(int(c) for c in a[4])
npol = int(a[5]) if len(a) > 5 else 8
langs = a[6].split(',') if len(a) > 6 else pipeline.LANGS
cfgs = [Config(l, sw, a[2]) for l in langs]
pols = [('prng', c) for c in range(1, npol + 1)]
kw = getattr(mod, 'RUN_KW', {})
if a[1] == 'c03':
    kw = {'stages': ('gen', 'erase'), 'n_erasures': 1}
tot = explore.explore(cfgs, pols, int(a[3]), mod.SPEC, {}, 16, 0, 16, run_kw=kw)
print('execs', tot.execs, 'errors', tot.errors[:2])
seen = {}
for v in tot.violations:
    k = (v['rule'], v['site'], v['shape'])
    seen.setdefault(k, []).append(v)
for k, vs in seen.items():
    print(k, len(vs), json.dumps(vs[0]['schedule']), vs[0].get('message', '')[:200])
