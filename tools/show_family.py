#!/venv/bin/python
"""usage: tools/show_family.py <lang> <index|descr-substring> [n_erasures]  -- prints the family program before/after erasure"""
import sys, os
sys.path.insert(0, os.path.dirname(os.path.dirname(os.path.abspath(__file__)))); sys.dont_write_bytecode = True
lang, sel = sys.argv[1], sys.argv[2]
n_er = int(sys.argv[3]) if len(sys.argv) > 3 else 1
sys.argv = [sys.argv[0]]
from mc import pipeline, progfam
from mc.pipeline import Config
pipeline.setup_env()
idx = [int(sel)] if sel.isdigit() else [i for i in range(progfam.size()) if sel in repr(progfam.describe(i))][:1]
for i in idx:
    x = pipeline.run_execution(Config(lang, (0, 0, 0, 0), 'F:%d' % i), 'first', None, stages=('gen', 'erase'), n_erasures=n_er)
    print(i, progfam.describe(i), x.error)
    def body(t):
        return t[t.index('bar'):] if t and 'bar' in t else t
    print('--- before'); print(body(x.T0).split('interface Function0')[0]); print('--- after'); print(body(x.T1).split('interface Function0')[0])
