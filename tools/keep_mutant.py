#!/usr/bin/env python3
"""usage: keep_mutant.py <src dir> <seeded id> <property> <caught_by: check ids or 'none'> <needs...>
Copies patch.diff / demo.py / notes.md into /verif/seeded/<id>/ and writes meta.json."""
import json, os, shutil, sys
src, sid, prop, caught = sys.argv[1:5]
needs = ' '.join(sys.argv[5:])
dst = os.path.join('/verif/seeded', sid)
os.makedirs(dst, exist_ok=True)
for f in ('patch.diff', 'demo.py', 'notes.md'):
    if os.path.exists(os.path.join(src, f)):
        shutil.copy(os.path.join(src, f), os.path.join(dst, f))
meta = {
    'id': sid, 'breaks_property': prop, 'needs_to_manifest': needs,
    'origin': 'independent sub-agent given only the property text and a scratch worktree',
    'confirmed': 'tools/confirm_mutant.sh: patch applies, 161 repo tests pass with it, demo.py exits non-zero with '
                 'it and 0 without it (scratch worktree)',
    'checked_with': 'tools/try_mutant.sh patch.diff %s (git -C /repo apply; ./check <id> --tier quick; git checkout -- .)' % prop,
    'caught_by_quick_check': [] if caught == 'none' else caught.split(','),
}
json.dump(meta, open(os.path.join(dst, 'meta.json'), 'w'), indent=1)
print('kept', dst)
