#!/bin/bash
# usage: tools/try_mutant.sh <patch.diff> <Cxx> [more checks...]
# Applies the patch to /repo, runs the repo's tests and the given quick checks, reverts.
patch="$1"; shift
cd /repo || exit 2
if ! git diff --quiet; then echo "/repo has local changes; refusing"; exit 2; fi
git apply "$patch" || { echo "patch does not apply"; exit 2; }
trap 'git -C /repo checkout -- . ; find /repo -name __pycache__ -prune -exec rm -rf {} + 2>/dev/null' EXIT
echo "== tests: $(/venv/bin/python -m pytest -q -p no:cacheprovider 2>&1 | tail -1)"
cd /verif
for c in "$@"; do
  out=$(./check "$c" --tier quick 2>&1); rc=$?
  echo "== $c exit=$rc"
  echo "$out" | grep -E "VIOLATION|HARNESS|KNOWN" | cut -c1-300 | head -8
done
