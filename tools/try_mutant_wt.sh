#!/bin/bash
# usage: tools/try_mutant_wt.sh <patch.diff> <scratch worktree> <Cxx> [more checks...]
# Like try_mutant.sh but applies the patch in a scratch worktree and points the checks at it
# (VERIF_REPO), so /repo stays untouched while other checks are running from it.
patch="$1"; wt="$2"; shift; shift
cd "$wt" || exit 2
git checkout -q -- .
git apply "$patch" || { echo "patch does not apply"; exit 2; }
trap 'git -C "$wt" checkout -q -- .' EXIT
echo "== tests: $(/venv/bin/python -m pytest -q -p no:cacheprovider 2>&1 | tail -1)"
cd /verif
for c in "$@"; do
  out=$(VERIF_REPO="$wt" ./check "$c" --tier quick ${JOBS:+--jobs $JOBS} 2>&1); rc=$?
  echo "== $c exit=$rc"
  echo "$out" | grep -E "VIOLATION|HARNESS|KNOWN" | cut -c1-300 | head -8
done
