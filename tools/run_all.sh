#!/bin/bash
# usage: tools/run_all.sh <quick|thorough> [ids...]   -- runs checks one after another, prints exit code and time
tier="$1"; shift
ids="$@"; [ -z "$ids" ] && ids="C19 C14 C10 C08 C06 C07 C16 C15 C09 C18 C17 C12 C01 C05 C11 C13 C02 C03 C04"
cd "$(dirname "$0")/.."
for c in $ids; do
  s=$(date +%s)
  out=$(./check $c --tier $tier 2>&1); rc=$?
  e=$(date +%s)
  echo "== $c $tier exit=$rc $((e-s))s known=$(echo "$out" | grep -c KNOWN-FINDING) violations=$(echo "$out" | grep -c '^VIOLATION')"
  echo "$out" | grep -E "^VIOLATION|^  rule=|HARNESS" | cut -c1-260 | head -12
done
