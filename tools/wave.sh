#!/bin/bash
# usage: tools/wave.sh <Cxx> [checks...]  -- copy agent deliverables out of the worktree, confirm each, run the quick check(s) on each
p="$1"; shift; checks="${@:-$p}"
O=${OUT:-/tmp/mw/out}; mkdir -p $O/$p
[ -d /tmp/mw/$p/_out ] && cp -rn /tmp/mw/$p/_out/* $O/$p/ 2>/dev/null
for d in $O/$p/*/; do
  [ -f "$d/patch.diff" ] || continue
  echo "=== $p $(basename $d)"
  /verif/tools/confirm_mutant.sh "$d" /tmp/mw/$p 2>&1 | tail -2
  /verif/tools/try_mutant_wt.sh "$d/patch.diff" /tmp/mw/$p $checks 2>&1 | grep -E "^== |VIOLATION|HARNESS" | cut -c1-220 | head -8
done
