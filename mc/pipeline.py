"""One *execution* of the real pipeline under a ChoiceSource.

    reset -> Generator(lang).generate()                      -> P0, T0 (text)
          -> TypeErasure(P0).transform()  (n_erasures times) -> P1, T1
          -> TypeOverwriting(P1).transform()                 -> P2, T2

exactly the stages hephaestus.gen_program runs (one translator object per program).
All instrumentation is applied from here by monkeypatching /repo modules at import.
"""
import importlib
import itertools
import os
import pickle
import sys
import traceback

from mc import common
from mc.choice import ChoiceSource, Horizon, ScheduleError

LANGS = ('java', 'kotlin', 'groovy', 'scala')
SWITCH_FLAGS = ('--disable-use-site-variance', '--disable-contravariance-use-site',
                '--disable-bounded-type-parameters', '--disable-parameterized-functions')

# generation limits by tier name: (max_depth, min_top_level, max_top_level)
LIMITS = {
    'XS': (2, 1, 2),
    'S': (3, 2, 3),
    'M': (4, 3, 5),
    'D': (6, 5, 10),
    'P': (4, 3, 5),      # as M, but functions may declare up to 5 parameters (cfg.limits.fn.max_params; default 2)
}
MAX_PARAMS = {'P': 5}

_env = {'ready': False}
_ctr = [None]
_orient = ['asc']


def _vh(self):
    d = self.__dict__
    h = d.get('_vh')
    if h is None:
        h = d['_vh'] = next(_ctr[0])
    return h


def setup_env():
    """Once per process."""
    if _env['ready']:
        return
    common.import_repo()
    sys.argv = [sys.argv[0]]
    import src.ir.ast  # noqa  (must precede src.ir.context: circular import in /repo)
    from src.ir import node as irnode
    irnode.Node.__hash__ = _vh
    from src import utils
    _env['utils'] = utils
    _env['all_words'] = sorted(set(utils.read_lines(
        os.path.join(common.REPO, 'src', 'resources', 'words'))))
    # The 600 s visitor time-out of transformations/base.py starts one OS thread per visitor
    # call.  Real time is not an observable of any property and thread creation dominates the
    # cost of an execution (measured: 2.5x wall under 16 workers), so the timer is virtual: it
    # never fires; creations/cancellations are counted (C18 checks they balance).
    import types as _types
    import src.transformations.base as tbase
    tbase.threading = _types.SimpleNamespace(Timer=VirtualTimer)
    import src.args as args_mod
    _env['args_mod'] = args_mod
    from src.generators.config import cfg
    _env['cfg'] = cfg
    from src.translators.java import JavaTranslator
    from src.translators.kotlin import KotlinTranslator
    from src.translators.groovy import GroovyTranslator
    from src.translators.scala import ScalaTranslator
    _env['translators'] = {'java': JavaTranslator, 'kotlin': KotlinTranslator,
                           'groovy': GroovyTranslator, 'scala': ScalaTranslator}
    _env['ready'] = True
    _env['config'] = None


class VirtualTimer:
    started = 0
    cancelled = 0

    def __init__(self, interval, function, args=None, kwargs=None):
        self.interval = interval

    def start(self):
        VirtualTimer.started += 1

    def cancel(self):
        VirtualTimer.cancelled += 1


def reset_hash_counter():
    if _orient[0] == 'asc':
        _ctr[0] = itertools.count(1)
    else:
        _ctr[0] = itertools.count(10 ** 9, -1)


class Config:
    """language x switch vector x limits x hash orientation (+ translator options)."""

    def __init__(self, lang, switches=(0, 0, 0, 0), limits='S', orient='asc', cast_numbers=False):
        self.lang = lang
        self.switches = tuple(int(bool(s)) for s in switches)
        self.limits = limits
        self.orient = orient
        self.cast_numbers = cast_numbers

    def key(self):
        return (self.lang, self.switches, self.limits, self.orient, self.cast_numbers)

    def family_index(self):
        """limits 'F:<i>' = program i of the hand-built family (mc/progfam.py) instead of the generator"""
        if self.limits.startswith('F:'):
            return int(self.limits[2:])
        return None

    def env_key(self):
        lim = 'F' if self.limits.startswith('F:') else self.limits
        return (self.lang, self.switches, lim, self.orient, self.cast_numbers)

    def to_json(self):
        return {'lang': self.lang, 'switches': list(self.switches), 'limits': self.limits,
                'orient': self.orient, 'cast_numbers': self.cast_numbers}

    @staticmethod
    def from_json(d):
        return Config(d['lang'], d['switches'], d['limits'], d.get('orient', 'asc'),
                      d.get('cast_numbers', False))

    def __repr__(self):
        return '%s/%s/%s/%s%s' % (self.lang, ''.join(map(str, self.switches)), self.limits,
                                  self.orient, '/cast' if self.cast_numbers else '')


def configure(config):
    """Install a configuration through the REAL src.args (flag -> cfg mapping is explored)."""
    setup_env()
    if _env['config'] == config.env_key():
        return
    utils = _env['utils']
    cfg = _env['cfg']
    cfg.__init__()   # Singleton: same object, defaults restored
    R = utils.random
    # restore the word pool to the full list, then let the real filter run (src.args does it)
    R.__dict__.pop('INITIAL_WORDS', None)
    R.__dict__.pop('WORDS', None)
    R.INITIAL_WORDS = set(_env['all_words'])
    R.WORDS = set(_env['all_words'])
    md, mintl, maxtl = LIMITS['S' if config.family_index() is not None else config.limits]
    argv = ['hephaestus', '--language', config.lang, '--max-depth', str(md),
            '--iterations', '1', '--name', 'verif', '--bugs', '/nonexistent']
    for on, flag in zip(config.switches, SWITCH_FLAGS):
        if on:
            argv.append(flag)
    if config.cast_numbers:
        argv.append('--cast-numbers')
    old = sys.argv
    sys.argv = argv
    try:
        importlib.reload(_env['args_mod'])
    finally:
        sys.argv = old
    cfg.limits.min_top_level = mintl
    cfg.limits.max_top_level = maxtl
    cfg.limits.fn.max_params = MAX_PARAMS.get(config.limits, 2)
    _env['words'] = sorted(R.INITIAL_WORDS)
    _orient[0] = config.orient
    _env['config'] = config.env_key()


def cli_args():
    return _env['args_mod'].args


def install_choice(cs, word_offset=0):
    """Route every random decision through cs; word() is a deterministic data choice."""
    R = _env['utils'].random
    R.r = cs
    words = _env['words']
    state = {'i': 0}
    stride = 7919  # prime, coprime with len(words) in practice
    n = len(words)

    def word():
        w = words[(word_offset * 104729 + state['i'] * stride) % n]
        state['i'] += 1
        return w

    def reset_word_pool():
        pass
    R.word = word
    R.reset_word_pool = reset_word_pool


class Exec:
    """Observation record of one execution."""
    __slots__ = ('config', 'policy', 'dev', 'cs', 'error', 'stage_error', 'P0', 'P0_pickle',
                 'T0', 'P1', 'P1_pickle', 'T1', 'P2', 'T2', 'erasure_flags', 'ow_flag', 'ow_msg',
                 'horizon_hit', 'extra', 'recursion_error', 'context', 'frozen_ns')

    def __init__(self):
        for s in self.__slots__:
            setattr(self, s, None)
        self.extra = {}

    def trace_len(self):
        return len(self.cs.ns)


def oracle_choices(x, policy=None):
    """Install a separate ChoiceSource for work done by an oracle (reference translations,
    re-applied mutations): the execution's own trace stays exactly what the pipeline drew."""
    cs = ChoiceSource(policy or x.policy, None, horizon=200000)
    install_choice(cs, 0 if isinstance(x.policy, str) else x.policy[1])
    return cs


class oracle_scope:
    """with oracle_scope(x): ... -- oracle work in the middle of a pipeline run; the
    pipeline's own ChoiceSource and word stream are restored afterwards."""

    def __init__(self, x):
        self.x = x

    def __enter__(self):
        R = _env['utils'].random
        self.saved = (R.r, R.word, R.reset_word_pool)
        return oracle_choices(self.x)

    def __exit__(self, *a):
        R = _env['utils'].random
        R.r, R.word, R.reset_word_pool = self.saved
        return False


def new_translator(lang, package='src.a'):
    return _env['translators'][lang](package, cli_args().options['Translator'])


def translate(translator, program):
    return _env['utils'].translate_program(translator, program)


def run_execution(config, policy, dev=None, stages=('gen', 'erase', 'overwrite'), n_erasures=1,
                  horizon=20000, keep_pickles=True, hooks=None, word_offset=None, erasure_budget=None):
    """Run the pipeline once.  Never raises for failures of /repo code: they are recorded in
    Exec.error = (stage, exception type, message, innermost /repo frame)."""
    configure(config)
    reset_hash_counter()
    from src.generators.generator import Generator
    from src.transformations.type_erasure import TypeErasure
    from src.transformations.type_overwriting import TypeOverwriting
    x = Exec()
    x.config = config
    x.policy = policy
    x.dev = dict(dev or {})
    cs = ChoiceSource(policy, dev, horizon=horizon)
    x.cs = cs
    if word_offset is None:
        word_offset = 0 if isinstance(policy, str) else policy[1]
    install_choice(cs, word_offset)
    args = cli_args()
    stage = 'gen'
    # RecursionError must not depend on how deep the harness stack happens to be: give the
    # pipeline exactly the head-room it has under hephaestus.py (default limit 1000, ~10
    # driver frames above Generator.generate).
    depth = 0
    f = sys._getframe()
    while f is not None:
        depth += 1
        f = f.f_back
    old_limit = sys.getrecursionlimit()
    sys.setrecursionlimit(depth + 990)
    try:
        cs.mark('gen')
        translator = new_translator(config.lang)
        if hooks and 'before_gen' in hooks:
            hooks['before_gen'](x)
        if config.family_index() is not None:
            from mc import progfam
            P = progfam.build(config.lang, config.family_index())
        else:
            gen = Generator(language=config.lang, options=args.options['Generator'])
            x.extra['generator'] = gen
            P = gen.generate()
        x.P0 = P
        if keep_pickles:
            x.P0_pickle = pickle.dumps(P)
        stage = 'translate0'
        cs.mark('translate0')
        x.T0 = translate(translator, P)
        if hooks and 'after_gen' in hooks:
            hooks['after_gen'](x)
        if 'erase' in stages:
            flags = []
            for k in range(n_erasures):
                stage = 'erase%d' % k
                cs.mark(stage)
                er_opts = args.options['TypeErasure']
                if erasure_budget is not None:      # the transformation's own option (default 500000)
                    er_opts = dict(er_opts, max_combinations=erasure_budget)
                tr = TypeErasure(P, config.lang, None, er_opts)
                tr.transform()
                P = tr.result()
                flags.append(bool(tr.is_transformed))
            x.erasure_flags = flags
            x.P1 = P
            if keep_pickles:
                x.P1_pickle = pickle.dumps(P)
            stage = 'translate1'
            cs.mark('translate1')
            x.T1 = translate(translator, P)
            if hooks and 'after_erase' in hooks:
                hooks['after_erase'](x)
        if 'overwrite' in stages:
            stage = 'overwrite'
            cs.mark('overwrite')
            tr = TypeOverwriting(P, config.lang, None, args.options['TypeOverwriting'])
            x.extra['overwriter'] = tr
            tr.transform()
            P = tr.result()
            x.ow_flag = bool(tr.is_transformed)
            x.ow_msg = tr.error_injected
            x.P2 = P
            stage = 'translate2'
            cs.mark('translate2')
            translator.package = 'src.b'
            x.T2 = translate(translator, P)
            if hooks and 'after_overwrite' in hooks:
                hooks['after_overwrite'](x)
        cs.mark('end')
    except Horizon:
        x.horizon_hit = True
        x.error = (stage, 'Horizon', 'more than %d choice points' % horizon, None)
    except ScheduleError:
        raise
    except RecursionError as e:
        x.recursion_error = True
        x.error = (stage, 'RecursionError', str(e)[:200], _innermost_repo_frame(e))
    except Exception as e:  # noqa: the whole point is to observe failures of /repo
        x.error = (stage, type(e).__name__, str(e)[:300], _innermost_repo_frame(e))
    finally:
        sys.setrecursionlimit(old_limit)
    return x


def _innermost_repo_frame(e):
    tb = traceback.extract_tb(e.__traceback__)
    for fr in reversed(tb):
        if '/src/' in fr.filename and '/verif/' not in fr.filename:
            fn = fr.filename[fr.filename.rfind('/src/') + 1:]
            return '%s:%s:%d' % (fn, fr.name, fr.lineno)
    if tb:
        fr = tb[-1]
        return '%s:%s:%d' % (os.path.basename(fr.filename), fr.name, fr.lineno)
    return None
