"""PSE -- program skeleton enumeration: a finite family of small hand-built IR programs.

The generator reaches the constructs the erasure analysis is about (a generic call whose type
parameter is fixed only by the expected type, a constructor whose type parameter occurs in no
constructor parameter, a declared type wider than the initializer's type followed by an assignment,
nested generic arguments) a few times per thousand programs.  This family enumerates them
*exhaustively* over a small skeleton grammar, built through the real IR constructors and the real
Context, in the conventions the generator uses (declarations registered under their namespaces,
block bodies whose last expression is the result).  Programs are well-typed by construction; the
checks that consume the family first establish that with their own oracles (R-TC, javac) on the
unmutated program, so an error of this file shows up as a failed precondition, not as a finding.

Library of every program (L):

    open class A          class B : A()        class G<T>(val f: T) { fun self(): G<T> = G<T>(f) }
    class H<U>() { fun self(): H<U> = H<U>() }
    fun <T> foo(): T      fun <T> id(x: T): T   fun <T> mk(x: T): G<T>       fun <T> mkh(): H<T>

Body:   fun bar(): R { [val|var] x: D = E ; [stmt2] ; result }

    E      atoms, foo<t>(), id<t>(atom), G<t>(atom), H<t>(), mk<t>(atom), mkh<t>(), id<G<t>>(G<t>(atom)),
           G<G<t>>(G<t>(atom)), if (true) e1 else e2, G<t>(foo<t>()), id<t>(foo<t>()),
           G<t>(atom).self(), H<t>().self()  (constructor call in receiver position)       t in {A, B, String}
    D      the type of E, or a proper supertype of it (A for B, the top type otherwise)
    stmt2  nothing | x = atom (x mutable) | val y: D = x | val y: D = id<D>(x)
    result x | id<D>(x) | "s"

`build(lang, i)` returns the i-th program; `size()` the number of skeletons (language independent).
"""
import itertools

_cache = {}


def _skeletons():
    """-> list of skeleton descriptors (pure data, language independent)."""
    if 'sk' in _cache:
        return _cache['sk']
    T = ('A', 'B', 'S')
    below = {'A': ('A', 'B'), 'B': ('B',), 'S': ('S',)}      # atoms usable where t is expected
    E = []
    for t in T:
        E.append((('atom', t), t))
        E.append((('foo', t), t))
        E.append((('H', t), ('H', t)))
        E.append((('mkh', t), ('H', t)))
        E.append((('idG', t), ('G', t)))
        E.append((('GG', t), ('G', ('G', t))))
        E.append((('Gfoo', t), ('G', t)))
        E.append((('idfoo', t), t))
        E.append((('Gself', t), ('G', t)))
        E.append((('Hself', t), ('H', t)))
        for s in below[t]:
            E.append((('id', t, s), t))
            E.append((('G', t, s), ('G', t)))
            E.append((('mk', t, s), ('G', t)))
        for a, b in ((('atom', t), ('foo', t)), (('foo', t), ('atom', t)), (('foo', t), ('foo', t))):
            E.append((('if', t, a, b), t))
    out = []
    for e, te in E:
        ds = [te]
        if te == 'B':
            ds.append('A')
        else:
            ds.append('TOP')
        for d in ds:
            for mut, s2 in ((False, 'none'), (False, 'y'), (False, 'yid'), (True, 'none'), (True, 'assign')):
                for res in ('x', 'idx', 's'):
                    out.append({'e': e, 'te': te, 'd': d, 'mutable': mut, 'stmt2': s2, 'result': res})
    _cache['sk'] = out
    return out


def size():
    return len(_skeletons())


def core():
    """indices of the reduced family (no second statement, result x): one program per initializer x declared
    type x mutability -- used by the checks whose oracle is expensive per execution"""
    return [i for i, sk in enumerate(_skeletons()) if sk['stmt2'] == 'none' and sk['result'] == 'x']


def mini():
    """one program per initializer: immutable x declared with the initializer's own type"""
    sk = _skeletons()
    return [i for i in core() if not sk[i]['mutable'] and sk[i]['d'] == sk[i]['te']]


def family_configs(langs, which='all', switches=(0, 0, 0, 0)):
    from mc.pipeline import Config
    idx = range(size()) if which == 'all' else core() if which == 'core' else mini()
    return [Config(l, switches, 'F:%d' % i) for l in langs for i in idx]


def describe(i):
    return dict(_skeletons()[i])


def build(lang, i):
    """Build skeleton i for `lang` through the real IR constructors. -> ast.Program"""
    import src.ir.ast as ast            # noqa  (before src.ir.context)
    from src.ir import types as tp, context as ctx
    from src.ir import BUILTIN_FACTORIES
    sk = _skeletons()[i]
    bt = BUILTIN_FACTORIES[lang]
    STR = bt.get_string_type()
    TOP = bt.get_any_type()
    G0 = ast.GLOBAL_NAMESPACE
    c = ctx.Context()

    # ---- library
    clsA = ast.ClassDeclaration('A', [], ast.ClassDeclaration.REGULAR, fields=[], functions=[], is_final=False)
    tA = clsA.get_type()
    clsB = ast.ClassDeclaration('B', [ast.SuperClassInstantiation(tA, [])], ast.ClassDeclaration.REGULAR,
                                fields=[], functions=[], is_final=True)
    tB = clsB.get_type()
    gT = tp.TypeParameter('T')
    gf = ast.FieldDeclaration('f', gT)
    clsG = ast.ClassDeclaration('G', [], ast.ClassDeclaration.REGULAR, fields=[gf], functions=[], is_final=True,
                                type_parameters=[gT])
    hT = tp.TypeParameter('U')
    clsH = ast.ClassDeclaration('H', [], ast.ClassDeclaration.REGULAR, fields=[], functions=[], is_final=True,
                                type_parameters=[hT])
    conG, conH = clsG.get_type(), clsH.get_type()
    gself = ast.FunctionDeclaration('self', [], conG.new([gT]), ast.Block([ast.New(conG.new([gT]), [ast.Variable('f')])]),
                                    ast.FunctionDeclaration.CLASS_METHOD)
    clsG.functions.append(gself)
    hself = ast.FunctionDeclaration('self', [], conH.new([hT]), ast.Block([ast.New(conH.new([hT]), [])]),
                                    ast.FunctionDeclaration.CLASS_METHOD)
    clsH.functions.append(hself)
    for cl in (clsA, clsB, clsG, clsH):
        c.add_class(G0, cl.name, cl)
    c.add_var(G0 + ('G',), gf.name, gf)
    c.add_type(G0 + ('G',), gT.name, gT)
    c.add_type(G0 + ('H',), hT.name, hT)
    c.add_func(G0 + ('G',), 'self', gself)
    c.add_func(G0 + ('H',), 'self', hself)

    def fn(name, tpar, params, ret, body):
        f = ast.FunctionDeclaration(name, params, ret, body, ast.FunctionDeclaration.FUNCTION,
                                    type_parameters=[tpar])
        c.add_func(G0, name, f)
        c.add_type(G0 + (name,), tpar.name, tpar)
        for p in params:
            c.add_var(G0 + (name,), p.name, p)
        return f

    t1 = tp.TypeParameter('T1')
    fn('foo', t1, [], t1, ast.Block([ast.BottomConstant(t1)]))
    t2 = tp.TypeParameter('T2')
    fn('id', t2, [ast.ParameterDeclaration('p', t2)], t2, ast.Block([ast.Variable('p')]))
    t3 = tp.TypeParameter('T3')
    fn('mk', t3, [ast.ParameterDeclaration('p', t3)], conG.new([t3]),
       ast.Block([ast.New(conG.new([t3]), [ast.Variable('p')])]))
    t4 = tp.TypeParameter('T4')
    fn('mkh', t4, [], conH.new([t4]), ast.Block([ast.New(conH.new([t4]), [])]))

    # ---- types and expressions of the skeleton
    base = {'A': tA, 'B': tB, 'S': STR, 'TOP': TOP}

    def ty(d):
        if isinstance(d, str):
            return base[d]
        con = conG if d[0] == 'G' else conH
        return con.new([ty(d[1])])

    def atom(t):
        if t == 'S':
            return ast.StringConstant('s')
        return ast.New(base[t], [])

    def call(name, targs, args):
        return ast.FunctionCall(name, [ast.CallArgument(a) for a in args], receiver=None, type_args=targs)

    def expr(e):
        k = e[0]
        if k == 'atom':
            return atom(e[1])
        if k == 'foo':
            return call('foo', [ty(e[1])], [])
        if k == 'H':
            return ast.New(ty(('H', e[1])), [])
        if k == 'mkh':
            return call('mkh', [ty(e[1])], [])
        if k == 'idG':
            return call('id', [ty(('G', e[1]))], [ast.New(ty(('G', e[1])), [atom(e[1])])])
        if k == 'GG':
            return ast.New(ty(('G', ('G', e[1]))), [ast.New(ty(('G', e[1])), [atom(e[1])])])
        if k == 'Gfoo':
            return ast.New(ty(('G', e[1])), [call('foo', [ty(e[1])], [])])
        if k == 'idfoo':
            return call('id', [ty(e[1])], [call('foo', [ty(e[1])], [])])
        if k == 'Gself':
            return ast.FunctionCall('self', [], receiver=ast.New(ty(('G', e[1])), [atom(e[1])]))
        if k == 'Hself':
            return ast.FunctionCall('self', [], receiver=ast.New(ty(('H', e[1])), []))
        if k == 'id':
            return call('id', [ty(e[1])], [atom(e[2])])
        if k == 'G':
            return ast.New(ty(('G', e[1])), [atom(e[2])])
        if k == 'mk':
            return call('mk', [ty(e[1])], [atom(e[2])])
        if k == 'if':
            return ast.Conditional(ast.BooleanConstant('true'), ast.Block([expr(e[2])], is_func_block=False),
                                   ast.Block([expr(e[3])], is_func_block=False), ty(e[1]))
        raise ValueError(e)

    D = ty(sk['d'])
    x = ast.VariableDeclaration('x', expr(sk['e']), is_final=not sk['mutable'], var_type=D)
    body = [x]
    ns = G0 + ('bar',)
    c.add_var(ns, 'x', x)
    if sk['stmt2'] == 'assign':
        d = sk['d']
        a = 'S' if d in ('S', 'TOP') else ('A' if d == 'A' else ('B' if d == 'B' else None))
        if a is not None:
            rhs = atom(a)
        else:       # parameterized declared type: another constructor call of exactly that type
            inner = d[1]
            if isinstance(inner, str):
                rhs = (ast.New(ty(d), [atom(inner)]) if d[0] == 'G' else ast.New(ty(d), []))
            else:
                rhs = ast.New(ty(d), [ast.New(ty(inner), [atom(inner[1])])])
        body.append(ast.Assignment('x', rhs))
    elif sk['stmt2'] in ('y', 'yid'):
        init = ast.Variable('x') if sk['stmt2'] == 'y' else call('id', [D], [ast.Variable('x')])
        y = ast.VariableDeclaration('y', init, is_final=True, var_type=D)
        c.add_var(ns, 'y', y)
        body.append(y)
    if sk['result'] == 'x':
        R, res = D, ast.Variable('x')
    elif sk['result'] == 'idx':
        R, res = D, call('id', [D], [ast.Variable('x')])
    else:
        R, res = STR, ast.StringConstant('r')
    body.append(res)
    bar = ast.FunctionDeclaration('bar', [], R, ast.Block(body), ast.FunctionDeclaration.FUNCTION)
    c.add_func(G0, 'bar', bar)
    return ast.Program(c, lang)


# ---- programs that share identifiers with a different status (C11: "after translating other programs") ------------

def name_clash_programs(lang):
    """-> {'A': Program, 'B': Program, 'C': Program}

    A:  fun foo(): String; val v: String; open class K { fun bar(): String }; fun useA() uses foo(), v, K().bar()
    B:  fun bar(): String; class K(val v: String) { fun foo(): String };      fun useB() uses K("s").foo(), .v, bar()
    C:  fun useC() declares a nested function with four parameters and calls it
    The same names are a top-level function in one program and a method in the other (foo, bar), a top-level
    variable and a field (v); C needs a functional interface beyond the fixed ones (Java, Groovy)."""
    import src.ir.ast as ast            # noqa
    from src.ir import context as ctx
    from src.ir import BUILTIN_FACTORIES
    bt = BUILTIN_FACTORIES[lang]
    STR = bt.get_string_type()
    G0 = ast.GLOBAL_NAMESPACE
    FN, M = ast.FunctionDeclaration.FUNCTION, ast.FunctionDeclaration.CLASS_METHOD

    def s(x):
        return ast.StringConstant(x)

    # A
    c = ctx.Context()
    foo = ast.FunctionDeclaration('foo', [], STR, ast.Block([s('a')]), FN)
    v = ast.VariableDeclaration('v', s('x'), is_final=True, var_type=STR)
    bar = ast.FunctionDeclaration('bar', [], STR, ast.Block([s('k')]), M)
    K = ast.ClassDeclaration('K', [], ast.ClassDeclaration.REGULAR, fields=[], functions=[bar], is_final=False)
    k = ast.VariableDeclaration('k', ast.New(K.get_type(), []), is_final=True, var_type=K.get_type())
    t = ast.VariableDeclaration('t', ast.FunctionCall('foo', [], receiver=None), is_final=True, var_type=STR)
    u = ast.VariableDeclaration('u', ast.Variable('v'), is_final=True, var_type=STR)
    use = ast.FunctionDeclaration('useA', [], STR, ast.Block([k, t, u, ast.FunctionCall('bar', [], receiver=ast.Variable('k'))]), FN)
    c.add_func(G0, 'foo', foo)
    c.add_var(G0, 'v', v)
    c.add_class(G0, 'K', K)
    c.add_func(G0 + ('K',), 'bar', bar)
    c.add_func(G0, 'useA', use)
    for d in (k, t, u):
        c.add_var(G0 + ('useA',), d.name, d)
    A = ast.Program(c, lang)

    # B
    c = ctx.Context()
    bar = ast.FunctionDeclaration('bar', [], STR, ast.Block([s('b')]), FN)
    fv = ast.FieldDeclaration('v', STR)
    foo = ast.FunctionDeclaration('foo', [], STR, ast.Block([s('m')]), M)
    K = ast.ClassDeclaration('K', [], ast.ClassDeclaration.REGULAR, fields=[fv], functions=[foo], is_final=True)
    k = ast.VariableDeclaration('k', ast.New(K.get_type(), [s('s')]), is_final=True, var_type=K.get_type())
    t = ast.VariableDeclaration('t', ast.FunctionCall('foo', [], receiver=ast.Variable('k')), is_final=True, var_type=STR)
    u = ast.VariableDeclaration('u', ast.FieldAccess(ast.Variable('k'), 'v'), is_final=True, var_type=STR)
    use = ast.FunctionDeclaration('useB', [], STR, ast.Block([k, t, u, ast.FunctionCall('bar', [], receiver=None)]), FN)
    c.add_func(G0, 'bar', bar)
    c.add_class(G0, 'K', K)
    c.add_var(G0 + ('K',), 'v', fv)
    c.add_func(G0 + ('K',), 'foo', foo)
    c.add_func(G0, 'useB', use)
    for d in (k, t, u):
        c.add_var(G0 + ('useB',), d.name, d)
    B = ast.Program(c, lang)

    # C
    c = ctx.Context()
    ps = [ast.ParameterDeclaration(n, STR) for n in ('a', 'b', 'c', 'd')]
    inner = ast.FunctionDeclaration('inner', ps, STR, ast.Block([ast.Variable('a')]), FN)
    call = ast.FunctionCall('inner', [ast.CallArgument(s(x)) for x in '1234'], receiver=None)
    use = ast.FunctionDeclaration('useC', [], STR, ast.Block([inner, call]), FN)
    c.add_func(G0, 'useC', use)
    c.add_func(G0 + ('useC',), 'inner', inner)
    for p_ in ps:
        c.add_var(G0 + ('useC', 'inner'), p_.name, p_)
    C = ast.Program(c, lang)
    return {'A': A, 'B': B, 'C': C}
