"""DRV -- closed-system harness around hephaestus.py (the driver).

hephaestus.py is imported in-process with a prepared sys.argv.  Replaced seams (and only these):
  run_command            scripted compiler: prints, for the files really present in the batch
                         directory, the diagnostics the scenario prescribes
  ProgramProcessor       scripted stages (generation fails / pass-only / pass+fail pair / fault
                         injection fails); real gen_program, save_program, check_oracle,
                         update_stats, _run, run, run_parallel run unchanged
  utils.random.r         word() menu {fresh word, a word already used in this batch}
  mp.Pool                virtual pool: apply_async queues; at every scheduling point the
                         explorer picks which pending oracle task completes; arguments and
                         results cross the pool boundary through pickle; the worker's word-pool
                         changes do not leak into the parent (separate processes in reality)
  tempfile.mkdtemp       numbered directories under the scratch root
The file system is real (scratch directory).
"""
import contextlib
import io
import json
import os
import pickle
import shutil
import sys
import tempfile

from mc import common

# deviation bound on the word() menu: at most this many draws per session answer "a word already
# used in this batch" (a redraw loop in the driver would otherwise be unrolled for ever)
MAX_WORD_REUSE = 2

SPECS_QUICK = [('genfail',), ('ok', True), ('ok', False),
               ('pair', True, False), ('pair', True, True), ('pair', False, False), ('pair', False, True)]
SPECS_ALL = SPECS_QUICK + [('injfail', True), ('injfail', False)]

# (file of the expected-pass program, file of the expected-fail program) as the translators name them
FILENAMES = {'java': ('Main.java', 'Incorrect.java'), 'kotlin': ('program.kt', 'incorrect.kt'),
             'groovy': ('Main.groovy', 'incorrect.groovy'), 'scala': ('program.scala', 'incorrect.scala')}


def error_text(lang, path):
    if lang == 'java':
        return '%s:3: error: incompatible types: String cannot be converted to Integer\n    Integer x = "a";\n                ^\n' % path
    if lang == 'kotlin':
        return '%s:3:5: error: type mismatch: inferred type is String but Int was expected\n    val x: Int = "a"\n                 ^\n' % path
    if lang == 'groovy':
        return '%s: 12: [Static type checking] - Cannot assign value of type java.lang.String to variable of type int\n @ line 12, column 5.\n       int x = "a"\n       ^\n\n' % path
    return '-- [E007] Type Mismatch Error: %s:3:15 ------------\n3 |  val x: Int = "a"\n  |               ^^^\n  |               Found:    ("a" : String)\n  |               Required: Int\n' % path


def error_msg_fragment(lang):
    return {'java': 'incompatible types', 'kotlin': 'type mismatch', 'groovy': 'Cannot assign value',
            'scala': 'Found:'}[lang]


def crash_text(lang):
    if lang == 'java':
        return 'An exception has occurred in the compiler (17). Please file a bug\njava.lang.NullPointerException\n\tat jdk.compiler/com.sun.tools.javac.comp.Attr.visitApply(Attr.java:1)\n'
    if lang == 'kotlin':
        return 'exception: org.jetbrains.kotlin.backend.common.BackendException: Backend Internal error\n\tat org.jetbrains.kotlin.backend.X.y(X.kt:1)\n'
    if lang == 'groovy':
        return '>>> a serious error occurred: BUG! exception in phase\njava.lang.NullPointerException\n\tat org.codehaus.groovy.classgen.Verifier.visit(Verifier.java:1)\n'
    return 'exception occurred while compiling x\njava.lang.AssertionError: assertion failed\n\tat dotty.tools.dotc.core.Types.x(Types.scala:1)\n'


class Harness:
    def __init__(self, lang='java'):
        self.lang = lang
        self.root = tempfile.mkdtemp(prefix='verif_drv_', dir=common.scratch_root())
        self.bugs = os.path.join(self.root, 'bugs')
        common.import_repo()
        old_argv, old_cwd = sys.argv, os.getcwd()
        sys.argv = ['hephaestus.py', '--bugs', self.bugs, '--name', 's', '--language', lang,
                    '--batch', '2', '--iterations', '4', '--transformations', '0',
                    '--log-file', os.path.join(self.root, 'logs')]
        os.chdir(self.root)
        try:
            for m in [m for m in sys.modules if m == 'hephaestus' or m == 'src.args']:
                del sys.modules[m]
            import src.ir.ast  # noqa
            import hephaestus as H
        finally:
            sys.argv = old_argv
            os.chdir(old_cwd)
        self.H = H
        from src import utils
        self.utils = utils
        from src.ir import ast
        from src.ir.context import Context
        self.ast = ast
        self.Context = Context
        H.logging = lambda: None
        H.print_msg = lambda: None
        H.run_command = self.run_command
        H.ProgramProcessor = self.make_processor()
        H.mp = _FakeMP(self)
        self._orig_mkdtemp = tempfile.mkdtemp
        H.tempfile = _FakeTempfile(self)
        # package names of one batch are drawn in sorted order: (art, ear), (heart, near), (oat, ox), (throat, tox) --
        # each name of a program is a proper suffix of the corresponding name of the next one, so that any matching of
        # compiler-reported paths by suffix or substring instead of by path confuses two programs of a batch
        self.words = ['art', 'ear', 'heart', 'near', 'oat', 'ox', 'throat', 'tox']
        utils.random.r = _WordChooser(self)
        self.scenario = None
        self.prefix = []
        self.trace = []
        self.menus = []
        self.tmp_counter = 0
        self.used_words = set()
        self.reuse_count = 0
        self.compiled = []      # list of (batch dir, [files seen by the compiler])

    def close(self):
        shutil.rmtree(self.root, ignore_errors=True)

    # ---- explorer choice ------------------------------------------------------------------
    def pick(self, n, kind):
        i = len(self.trace)
        c = self.prefix[i] if i < len(self.prefix) else 0
        if c >= n:
            raise RuntimeError('schedule does not fit: %r at %d of %d' % (c, i, n))
        self.trace.append(c)
        self.menus.append((n, kind))
        return c

    # ---- scripted stages ---------------------------------------------------------------------
    def make_program(self, pid, kind):
        P = self.ast.Program(self.Context(), self.lang)
        P.verif_tag = (pid, kind)
        return P

    def make_processor(self):
        harness = self

        class ScriptedProcessor:
            def __init__(self, proc_id, args):
                self.proc_id = proc_id
                self.args = args
                self.current_transformation = 0

            def get_program(self):
                spec = harness.scenario['progs'][self.proc_id]
                if spec[0] == 'genfail':
                    raise Exception('generator failed on %d' % self.proc_id)
                return harness.make_program(self.proc_id, 'ok'), True

            def can_transform(self):
                return False

            def get_transformations(self):
                return []

            def inject_fault(self, program):
                spec = harness.scenario['progs'][self.proc_id]
                if spec[0] == 'injfail':
                    raise Exception('fault injection failed on %d' % self.proc_id)
                if spec[0] == 'ok':
                    return None
                return harness.make_program(self.proc_id, 'bad'), 'Integer expected but String found in node %d' % self.proc_id
        return ScriptedProcessor

    def run_command(self, arguments, get_stdout=True):
        """scripted compiler: look at the files that are really there"""
        target = arguments[-1] if self.lang != 'kotlin' else arguments[1]
        base = target.split('*')[0].rstrip('/')
        files = []
        for dp, _, fns in os.walk(base):
            for fn in sorted(fns):
                if not fn.endswith('.bin'):
                    files.append(os.path.join(dp, fn))
        files.sort()
        self.compiled.append((base, files))
        batch_no = self.scenario['batch_of_dir'].get(os.path.dirname(base))
        out = ''
        for f in files:
            try:
                tag = pickle.load(open(f + '.bin', 'rb')).verif_tag
            except Exception:  # noqa
                tag = None
            if tag is None:
                continue
            pid, kind = tag
            spec = self.scenario['progs'][pid]
            if spec[0] in ('ok', 'injfail'):
                compiles = spec[1]
            else:
                compiles = spec[1] if kind == 'ok' else spec[2]
            if not compiles:
                out += error_text(self.lang, f)
        if batch_no is not None and batch_no in self.scenario['crash']:
            out = crash_text(self.lang) + out
        elif out and self.lang == 'java':
            out += '%d errors\n' % out.count(' error: ')
        return (not out, out)

    # ---- one session ---------------------------------------------------------------------------
    def run_session(self, scenario, prefix):
        """scenario: {'progs': {pid: spec}, 'crash': set(batch numbers), 'batch': int,
        'iterations': int, 'mode': 'seq'|'pool', 'keep_all': bool}"""
        H = self.H
        a = H.cli_args
        shutil.rmtree(self.bugs, ignore_errors=True)
        for d in os.listdir(self.root):
            if d.startswith('batch'):
                shutil.rmtree(os.path.join(self.root, d), ignore_errors=True)
        a.batch = scenario['batch']
        a.iterations = scenario['iterations']
        a.seconds = None
        a.stop_cond = 'iterations'
        a.keep_all = scenario.get('keep_all', False)
        a.workers = 2 if scenario['mode'] == 'pool' else None
        a.debug = False
        a.only_correctness_preserving_transformations = False
        H.STATS['totals'] = {'passed': 0, 'failed': 0}
        H.STATS['faults'] = {}
        H.STATS['time'] = 0
        H.STATS['compilation_time'] = 0
        H.STOP_COND = False
        R = self.utils.random
        R.INITIAL_WORDS = set(self.words)
        R.WORDS = set(self.words)
        self.scenario = dict(scenario)
        self.scenario['batch_of_dir'] = {}
        self.prefix = list(prefix)
        self.trace = []
        self.menus = []
        self.tmp_counter = 0
        self.used_words = set()
        self.reuse_count = 0
        self.compiled = []
        buf = io.StringIO()
        exc = None
        try:
            with contextlib.redirect_stdout(buf):
                if scenario['mode'] == 'seq':
                    H.run()
                else:
                    H.run_parallel()
        except SystemExit as e:
            exc = 'SystemExit(%r)' % (e.code,)
        except Exception as e:  # noqa
            exc = '%s: %s' % (type(e).__name__, str(e)[:160])
        obs = {
            'exception': exc,
            'stdout_internal_error': 'Internal error' in buf.getvalue(),
            'totals': dict(H.STATS['totals']),
            'faults': {int(k): dict(v) if isinstance(v, dict) else v for k, v in H.STATS['faults'].items()},
            'tree': self.tree(),
            'leftover_batch_dirs': sorted(d for d in os.listdir(self.root) if d.startswith('batch')),
            'faults_json': self._read_json('faults.json'),
            'stats_json': self._read_json('stats.json'),
            'trace': list(self.trace), 'menus': list(self.menus),
            'compiled': list(self.compiled),
        }
        return obs

    def _read_json(self, name):
        p = os.path.join(self.bugs, 's', name)
        if not os.path.exists(p):
            return None
        try:
            return json.load(open(p))
        except Exception as e:  # noqa
            return 'unreadable: %s' % e

    def tree(self):
        top = os.path.join(self.bugs, 's')
        out = []
        for dp, dns, fns in os.walk(top):
            rel = os.path.relpath(dp, top)
            for fn in fns:
                out.append(os.path.normpath(os.path.join(rel, fn)))
            if not dns and not fns:
                out.append(os.path.normpath(rel) + '/')
        return sorted(out)


class _WordChooser:
    """stands in for random.Random inside RandomUtils: word() = r.choice(tuple(WORDS))"""

    def __init__(self, harness):
        self.h = harness

    def seed(self, *a):
        pass

    def choice(self, seq):
        if not seq or not all(isinstance(w, str) for w in seq) or not set(seq) <= set(self.h.words):
            return seq[0]       # not a word() draw (e.g. random draws inside a translator)
        seq = sorted(seq)
        reuse = [w for w in seq if w in self.h.used_words]
        fresh = [w for w in seq if w not in self.h.used_words]
        if reuse and fresh and self.h.reuse_count < MAX_WORD_REUSE:
            k = self.h.pick(2, 'word')
            self.h.reuse_count += k
            w = fresh[0] if k == 0 else reuse[0]
        else:
            w = (fresh or reuse)[0]
        self.h.used_words.add(w)
        return w

    def random(self):
        return 0.0

    def randint(self, a, b):
        return a

    def sample(self, pop, k):
        return list(pop)[:k]


class _FakeTempfile:
    def __init__(self, harness):
        self.h = harness

    def mkdtemp(self, *a, **k):
        h = self.h
        h.tmp_counter += 1
        d = os.path.join(h.root, 'batch%d' % h.tmp_counter)
        os.makedirs(d)
        h.scenario['batch_of_dir'][d] = h.tmp_counter
        h.used_words = set()       # a new batch directory: names may be reused across batches
        return d


class _VResult:
    def __init__(self, pool, fn, args, cb):
        self.pool, self.fn, self.args, self.cb = pool, fn, args, cb
        self.done = False
        self.val = None

    def run(self):
        if self.done:
            return
        h = self.pool.h
        R = h.utils.random
        saved = (R.WORDS, R.INITIAL_WORDS, set(h.used_words))
        R.WORDS = set(R.WORDS)
        try:
            args = pickle.loads(pickle.dumps(self.args))
            val = self.fn(*args)
            self.val = pickle.loads(pickle.dumps(val))
        finally:
            R.WORDS, R.INITIAL_WORDS, h.used_words = saved
        self.done = True
        if self.cb:
            self.cb(self.val)

    def get(self, timeout=None):
        self.run()
        self.pool.sched()      # while the driver blocks in get(), pending oracle tasks may finish
        return self.val


class _VPool:
    def __init__(self, h, n):
        self.h = h
        self.pending = []

    def apply_async(self, fn, args=(), callback=None):
        r = _VResult(self, fn, args, callback)
        self.pending.append(r)
        self.sched()
        return r

    def sched(self, final=False):
        H = self.h.H
        while True:
            cands = [r for r in self.pending if not r.done and r.fn is H.check_oracle_mul]
            if not cands:
                break
            if final:
                cands[self.h.pick(len(cands), 'pool-final')].run()
                continue
            k = self.h.pick(len(cands) + 1, 'pool')   # 0 = nothing completes now
            if k == 0:
                break
            cands[k - 1].run()

    def close(self):
        pass

    def join(self):
        self.sched(final=True)

    def terminate(self):
        pass


class _FakeMP:
    def __init__(self, h):
        self.h = h

    def Pool(self, n=None):
        return _VPool(self.h, n)
