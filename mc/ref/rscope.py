"""R-SCOPE extras (C05): rules the reference type checker's own scopes do not cover -- unique
identifiers per scope, reserved words (authoritative hard-keyword lists kept HERE, not read from
/repo), type variables in scope, Java captures of non-final locals."""
from src.ir import ast, types as tp

KEYWORDS = {
    'java': set('''abstract assert boolean break byte case catch char class const continue default do double else enum
        extends final finally float for goto if implements import instanceof int interface long native new package private
        protected public return short static strictfp super switch synchronized this throw throws transient try void
        volatile while true false null _'''.split()),
    'kotlin': set('''as break class continue do else false for fun if in interface is null object package return super this
        throw true try typealias typeof val var when while'''.split()),
    # Groovy 4 reserved keywords; the contextual ones (as, in, permits, record, sealed, trait, var, yields) are
    # legal identifiers and therefore NOT listed
    'groovy': set('''abstract assert boolean break byte case catch char class const continue def default do double else
        enum extends false final finally float for goto if implements import instanceof int interface long native new
        null package private protected public return short static strictfp super switch synchronized this threadsafe throw
        throws transient true try void volatile while'''.split()),
    'scala': set('''abstract case catch class def do else enum export extends false final finally for given if implicit
        import lazy match new null object override package private protected return sealed super then throw trait true
        try type val var while with yield'''.split()),
}


def type_vars_of(t, out):
    if t is None:
        return
    if isinstance(t, tp.TypeParameter):
        out.add(t.name)
        type_vars_of(t.bound, out)
    elif isinstance(t, tp.WildCardType):
        type_vars_of(t.bound, out)
    elif isinstance(t, tp.ParameterizedType):
        for a in t.type_args:
            type_vars_of(a, out)


def extra_scope_alarms(program, lang):
    alarms = []
    kw = KEYWORDS[lang]

    def ident(name, what, path):
        if name in kw:
            alarms.append(('reserved-word', path, '%s named %r' % (what, name)))

    def uniq(names, what, path):
        seen = set()
        for n in names:
            if n in seen:
                alarms.append(('duplicate-identifier', path, 'two %s named %r' % (what, n)))
            seen.add(n)

    def check_types(types, in_scope, path, what):
        used = set()
        for t in types:
            type_vars_of(t, used)
        for v in sorted(used - in_scope):
            alarms.append(('type-variable-out-of-scope', path, '%s mentions %s' % (what, v)))

    def walk_expr(e, tvars, path, locals_, lambda_depth, outer_nonfinal):
        """locals_: dict name -> decl for block-local declarations (for the Java capture rule)"""
        if e is None:
            return
        if isinstance(e, ast.Block):
            mine = dict(locals_)
            names = []
            for s in e.body:
                if isinstance(s, ast.VariableDeclaration):
                    names.append(s.name)
                    ident(s.name, 'variable', path)
                    check_types([s.var_type, s.inferred_type], tvars, path + [s.name], 'variable type')
                    walk_expr(s.expr, tvars, path + [s.name], mine, lambda_depth, outer_nonfinal)
                    mine[s.name] = (s, lambda_depth)
                elif isinstance(s, ast.FunctionDeclaration):
                    names.append(s.name)
                    walk_func(s, tvars, path + [s.name], mine, lambda_depth + 1)
                else:
                    walk_expr(s, tvars, path, mine, lambda_depth, outer_nonfinal)
            uniq(names, 'declarations in one block', path)
            return
        if isinstance(e, ast.Variable):
            d = locals_.get(e.name)
            if d is not None and lang == 'java' and d[1] < lambda_depth and not getattr(d[0], 'is_final', True):
                alarms.append(('java-captures-non-final-local', path, e.name))
            return
        if isinstance(e, ast.Assignment):
            if e.receiver is None:
                d = locals_.get(e.name)
                if d is not None and lang == 'java' and d[1] < lambda_depth:
                    alarms.append(('java-assigns-captured-local', path, e.name))
            walk_expr(e.receiver, tvars, path, locals_, lambda_depth, outer_nonfinal)
            walk_expr(e.expr, tvars, path, locals_, lambda_depth, outer_nonfinal)
            return
        if isinstance(e, ast.Lambda):
            for p in e.params:
                ident(p.name, 'lambda parameter', path)
            uniq([p.name for p in e.params], 'lambda parameters', path)
            check_types([p.param_type for p in e.params] + [e.ret_type], tvars, path, 'lambda signature')
            inner = dict(locals_)
            for p in e.params:
                inner[p.name] = (p, lambda_depth + 1)
            walk_expr(e.body, tvars, path + [e.name], inner, lambda_depth + 1, outer_nonfinal)
            return
        if isinstance(e, ast.New):
            check_types([e.class_type], tvars, path, 'constructor call')
        if isinstance(e, ast.FunctionCall):
            check_types(list(e.type_args or []), tvars, path, 'explicit type argument')
        if isinstance(e, ast.Is):
            check_types([e.rexpr], tvars, path, 'is-operand')
            walk_expr(e.lexpr, tvars, path, locals_, lambda_depth, outer_nonfinal)
            return
        if isinstance(e, ast.ArrayExpr):
            check_types([e.array_type], tvars, path, 'array type')
        for c in (e.children() if hasattr(e, 'children') else []):
            if isinstance(c, ast.CallArgument):
                walk_expr(c.expr, tvars, path, locals_, lambda_depth, outer_nonfinal)
            elif isinstance(c, (ast.Expr, ast.Block)):
                walk_expr(c, tvars, path, locals_, lambda_depth, outer_nonfinal)

    def walk_func(f, tvars, path, locals_, lambda_depth):
        ident(f.name, 'function', path)
        tv = set(tvars)
        for t in f.type_parameters or []:
            ident(t.name, 'type parameter', path)
            tv.add(t.name)
        uniq([t.name for t in f.type_parameters or []], 'type parameters', path)
        for t in f.type_parameters or []:
            check_types([t.bound], tv, path, 'bound of %s' % t.name)
        uniq([p.name for p in f.params], 'parameters', path)
        inner = dict(locals_)
        for p in f.params:
            ident(p.name, 'parameter', path)
            check_types([p.param_type], tv, path, 'parameter type')
            if p.default is not None:
                walk_expr(p.default, tv, path, locals_, lambda_depth, None)
            inner[p.name] = (p, lambda_depth)
        check_types([f.ret_type, f.inferred_type], tv, path, 'result type')
        if f.body is not None:
            walk_expr(f.body, tv, path, inner, lambda_depth, None)

    decls = list(program.context.get_declarations(('global',), only_current=True).values())
    uniq([d.name for d in decls], 'top-level declarations', ['<top>'])
    for d in decls:
        if isinstance(d, ast.ClassDeclaration):
            ident(d.name, 'class', [d.name])
            tv = set()
            for t in d.type_parameters or []:
                ident(t.name, 'type parameter', [d.name])
                tv.add(t.name)
            uniq([t.name for t in d.type_parameters or []], 'type parameters', [d.name])
            for t in d.type_parameters or []:
                check_types([t.bound], tv, [d.name], 'bound of %s' % t.name)
            check_types(list(d.supertypes), tv, [d.name], 'supertype')
            uniq([f.name for f in d.fields], 'fields', [d.name])
            uniq([f.name for f in d.functions], 'methods', [d.name])
            for f in d.fields:
                ident(f.name, 'field', [d.name])
                check_types([f.field_type], tv, [d.name, f.name], 'field type')
            for s in d.superclasses:
                for a in s.args or []:
                    walk_expr(a, tv, [d.name, '<super>'], {}, 0, None)
            for f in d.functions:
                walk_func(f, tv, [d.name, f.name], {}, 0)
        elif isinstance(d, ast.FunctionDeclaration):
            walk_func(d, set(), [d.name], {}, 0)
        elif isinstance(d, ast.VariableDeclaration):
            ident(d.name, 'variable', [d.name])
            check_types([d.var_type, d.inferred_type], set(), [d.name], 'variable type')
            walk_expr(d.expr, set(), [d.name], {}, 0, None)
    return alarms
