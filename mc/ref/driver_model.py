"""Reference model of the driver (C15): decision table + running totals + expected file tree,
written from the property statement."""
from mc.drv import FILENAMES, error_msg_fragment


def batches(scenario):
    out = []
    it = 1
    n = scenario['iterations']
    while it < n + 1:
        k = min(scenario['batch'], n - (it - 1))
        out.append(list(range(it, it + k)))
        it += k
    return out


def expected(scenario, lang):
    """-> dict pid -> {'fault': bool, 'compiler_related': bool, 'msg': predicate name, 'files': [...]}"""
    ok_name, bad_name = FILENAMES[lang]
    exp = {}
    for bno, pids in enumerate(batches(scenario), start=1):
        crash = bno in scenario['crash']
        for pid in pids:
            spec = scenario['progs'][pid]
            kind = spec[0]
            e = {'fault': False, 'compiler_related': False, 'msg': None, 'files': []}
            if kind == 'genfail':
                e.update(fault=True, msg='genfail')
            elif kind == 'injfail':
                e.update(fault=True, msg='injfail')
            elif crash:
                files = [ok_name, ok_name + '.bin'] + ([bad_name, bad_name + '.bin'] if kind == 'pair' else [])
                e.update(fault=True, compiler_related=True, msg='crash', files=files)
            elif kind == 'ok':
                if not spec[1]:
                    e.update(fault=True, compiler_related=True, msg='compile-error', files=[ok_name, ok_name + '.bin'])
            else:
                v_ok, v_bad = spec[1], spec[2]
                files = [ok_name, ok_name + '.bin', bad_name, bad_name + '.bin']
                if not v_ok and v_bad:
                    e.update(fault=True, compiler_related=True, msg='either', files=files)
                elif not v_ok:
                    e.update(fault=True, compiler_related=True, msg='compile-error', files=files)
                elif v_bad:
                    e.update(fault=True, compiler_related=True, msg='should-not-compile', files=files)
            exp[pid] = e
    return exp


def msg_ok(kind, msg, pid, lang):
    if not isinstance(msg, str):
        return False
    frag = error_msg_fragment(lang)
    if kind == 'genfail':
        return 'generator failed on %d' % pid in msg
    if kind == 'injfail':
        return 'fault injection failed on %d' % pid in msg
    if kind == 'crash':
        return '\tat ' in msg
    if kind == 'compile-error':
        return frag in msg and not msg.startswith('SHOULD NOT BE COMPILED')
    if kind == 'should-not-compile':
        return msg.startswith('SHOULD NOT BE COMPILED: ') and ('found in node %d' % pid) in msg
    if kind == 'either':
        return frag in msg or msg.startswith('SHOULD NOT BE COMPILED: ')
    return False


def judge(scenario, obs, lang):
    """-> list of (rule, description)"""
    out = []
    exp = expected(scenario, lang)
    total = len(exp)
    if obs['exception']:
        out.append(('driver-raises', obs['exception']))
        return out
    if obs['stdout_internal_error']:
        out.append(('oracle-check-internal-error', 'check_oracle raised inside the worker; batch counted as passed'))
    exp_faults = {p for p, e in exp.items() if e['fault']}
    got_faults = set(obs['faults'].keys())
    if got_faults != exp_faults:
        out.append(('fault-set', 'reported %s, expected %s' % (sorted(got_faults), sorted(exp_faults))))
    t = obs['totals']
    if t['passed'] + t['failed'] != total:
        out.append(('counters', 'passed %d + failed %d != processed %d' % (t['passed'], t['failed'], total)))
    elif t['failed'] != len(got_faults):
        out.append(('counters', 'failed %d but %d faults reported' % (t['failed'], len(got_faults))))
    fj = obs['faults_json']
    if not isinstance(fj, dict) or set(fj.keys()) != {str(p) for p in got_faults}:
        out.append(('faults-file', 'faults.json lists %s, reported %s' % (
            sorted(fj.keys()) if isinstance(fj, dict) else fj, sorted(got_faults))))
    sj = obs['stats_json']
    if not isinstance(sj, dict) or sj.get('totals') != t:
        out.append(('stats-file', 'stats.json totals %r, STATS %r' % (sj.get('totals') if isinstance(sj, dict) else sj, t)))
    for pid in sorted(got_faults & exp_faults):
        e = exp[pid]
        st = obs['faults'][pid]
        msg = st.get('error') if isinstance(st, dict) else None
        if not msg_ok(e['msg'], msg, pid, lang):
            out.append(('message', 'program %d (%s): message %r' % (pid, e['msg'], (msg or '')[:120])))
    # file tree
    want = {'faults.json', 'stats.json'}
    for pid, e in exp.items():
        if e['fault'] and e['compiler_related']:
            for f in e['files']:
                want.add('%d/%s' % (pid, f))
    got = set()
    for f in obs['tree']:
        if scenario.get('keep_all') and (f.startswith('generator/') or f.startswith('transformations/')):
            continue
        got.add(f)
    missing = sorted(want - got)
    extra = sorted(got - want)
    if missing:
        out.append(('saved-test-case', 'missing %s' % missing[:6]))
    if extra:
        out.append(('leftover-files', 'unexpected %s' % extra[:6]))
    if obs['leftover_batch_dirs']:
        out.append(('leftover-files', 'batch directory not removed: %s' % obs['leftover_batch_dirs']))
    return out
