"""R-TC -- reference type checker over the hephaestus IR (C01, C03, C04, C05).

Reads IR objects structurally (attributes only) and converts types to R-SUB terms.  It never calls
is_subtype / is_assignable / substitute_type / get_supertypes / Context lookups of /repo: names are
resolved by its own lexical scopes (Scope), members through its own walk of the class table.
Three-valued: anything it cannot type raises Unknown and is counted, never reported.
Alarms use the LIBERAL reading of R-SUB (`may`): only definite violations are reported.
"""
import collections
from mc.ref.rsub import Table, subst, show, NOTHING
from mc.ref import rsub
from src.ir import ast, types as tp


def sub(tb, S, T):
    return rsub.sub(tb, S, T, 'may')

class Unknown(Exception): pass
class OnlyBottom(Unknown):
    """write position whose type mentions, through invariant positions only, a class parameter the receiver projects:
    the captured type equals nothing the program can write down, so only the bottom value is acceptable"""

def conv(t):
    """IR type -> term"""
    if t is None: raise Unknown('none-type')
    if isinstance(t, tp.WildCardType):
        raise Unknown('bare-wildcard')
    if isinstance(t, tp.TypeParameter):
        return ('v', t.name, conv_bound(t.bound))
    if isinstance(t, tp.ParameterizedType):
        return ('c', t.name, tuple(conv_arg(a) for a in t.type_args))
    if isinstance(t, tp.TypeConstructor):
        raise Unknown('bare-constructor')
    if t.__class__.__name__=='NothingType': return NOTHING
    return ('c', t.name, ())
_depth=[0]
def conv_bound(b):
    if b is None: return None
    _depth[0]+=1
    try:
        if _depth[0]>6: return None
        return conv(b)
    finally: _depth[0]-=1
def conv_arg(a):
    if isinstance(a, tp.WildCardType):
        if a.bound is None: return ('*',)
        return ('out' if a.variance.is_covariant() else 'in' if a.variance.is_contravariant() else 't', conv(a.bound))
    return ('t', conv(a))
def conv_any(t):
    """type at a position which may be a top-level wildcard (param types etc.)"""
    if isinstance(t, tp.WildCardType):
        if t.bound is None: raise Unknown('star-position')
        if t.variance.is_covariant(): return conv_any(t.bound)
        raise Unknown('in-position')
    return conv(t)
VARN={0:'inv',1:'out',2:'in'}
class Checker:
    infer=False
    def __init__(self, program):
        self.p=program; self.lang=program.language
        self.bt=program.bt_factory
        self.top=self.bt.get_any_type().name
        self.tb=Table(self.top)
        self.classes={}
        self.alarms=[]; self.stats=collections.Counter()
        self.ctx=[]      # syntactic context of the expression being typed (only 'cond' is recorded)
        self.void=self.bt.get_void_type().name
        self.boolean=self.bt.get_boolean_type().name
        # builtins
        for b in self.bt.get_non_nothing_types()+[self.bt.get_void_type()]:
            self._add_builtin(b)
        for n in range(0,6):
            self._add_builtin(self.bt.get_function_type(n))
        decls=list(program.context.get_declarations(('global',),only_current=True).values())
        self.globals={}
        usernames={d.name for d in decls if isinstance(d, ast.ClassDeclaration)}
        from mc import irwalk
        for _,o in irwalk.walk(decls):
            if isinstance(o, tp.ParameterizedType) and o.name not in usernames and o.name not in self.tb.cls:
                self._add_builtin(o.t_constructor)
        for d in decls:
            if isinstance(d, ast.ClassDeclaration):
                self.classes[d.name]=d
                params=[(p.name,VARN[p.variance.value],None) for p in d.type_parameters]
                self.tb.add(d.name,params,[])
        for d in decls:
            if isinstance(d, ast.ClassDeclaration):
                try:
                    self.tb.add(d.name,[(p.name,VARN[p.variance.value],conv_bound(p.bound)) for p in d.type_parameters],
                                [conv(s) for s in d.supertypes])
                except Unknown as u: self.stats['unknown-classhdr:'+str(u)]+=1
            self.globals[d.name]=d
    def _add_builtin(self,b):
        if isinstance(b, tp.TypeConstructor):
            if b.name in self.tb.cls: return
            self.tb.add(b.name,[(p.name,VARN[p.variance.value],None) for p in b.type_parameters],[('c',self.top,())])
            # declared supertypes of a builtin constructor (Scala: Seq/Array/FunctionN extend AnyRef)
            sup=[]
            for s in (b.supertypes or []):
                if isinstance(s, tp.Builtin):
                    self._add_builtin(s); sup.append(('c',s.name,()))
            if sup:
                self.tb.add(b.name,[(p.name,VARN[p.variance.value],None) for p in b.type_parameters],sup)
            return
        if b.name in self.tb.cls: return
        sup=[]
        for s in (b.supertypes or []):
            self._add_builtin(s); sup.append(('c',s.name,()))
        self.tb.add(b.name,[],sup)
    # ---------- helpers
    def alarm(self,kind,path,exp,act,extra=''):
        self.alarms.append((kind,'/'.join(path),show(exp),show(act),extra))
    def le(self,S,T): return sub(self.tb,S,T)
    def expect(self,kind,path,act,exp):
        self.stats['positions']+=1
        if act is None or exp is None: self.stats['skipped']+=1; return
        if exp[0]=='c' and exp[1]==self.void: return
        if not self.le(act,exp): self.alarm(kind,path,exp,act)
    # class member lookup with substitution up the hierarchy
    def members(self, cname, kind):
        """yield (decl, subst-map term) for class and its ancestors; map in terms of class's own params"""
        out=[]; seen=set()
        def go(cn, m):
            if cn in seen or cn not in self.classes: return
            seen.add(cn); d=self.classes[cn]
            for x in (d.fields if kind=='fields' else d.functions): out.append((x,m,d))
            for s in d.supertypes:
                try: st=conv(s)
                except Unknown: continue
                st=subst(st,m)
                if st[1] in self.classes:
                    sd=self.classes[st[1]]
                    m2={p.name:(a[1] if a[0]=='t' else None) for p,a in zip(sd.type_parameters,st[2])}
                    if any(v is None for v in m2.values()): continue
                    go(st[1],m2)
        d=self.classes.get(cname)
        if d is None: return out
        go(cname,{p.name:('v',p.name,conv_bound(p.bound)) for p in d.type_parameters})
        return out
    def recv_inst(self, T):
        """receiver term -> (class name, map param->term or None if projected)"""
        while T[0]=='v':
            if T[2] is None: raise Unknown('recv-unbounded-var')
            T=T[2]
        if T[0]!='c': raise Unknown('recv-kind')
        if T[1] not in self.classes: raise Unknown('recv-not-user-class:'+T[1])
        d=self.classes[T[1]]
        m={}
        for p,a in zip(d.type_parameters,T[2]):
            m[p.name]=a
        return d,m
    def inst_type(self, t_ir, recv_map, fmap, reading=True):
        """convert declared type of member and apply receiver/function substitution; projections -> Unknown unless simple"""
        t=conv_any(t_ir)
        m={}
        for k,a in recv_map.items():
            if a[0]=='t': m[k]=a[1]
            else: m[k]=('proj',a)
        m.update(fmap)
        def sb(t):
            if t[0]=='v':
                r=m.get(t[1])
                if r is None: return t
                if r[0]=='proj': raise Unknown('member-type-mentions-projected-param')
                return r
            if t[0]=='c': return ('c',t[1],tuple(a if a[0]=='*' else (a[0],sb(a[1])) for a in t[2]))
            return t
        if t[0]=='v' and t[1] in m and m[t[1]][0]=='proj':
            a=m[t[1]][1]
            if reading:
                if a[0]=='out': return a[1]
                raise Unknown('read-through-in/star')
            else:
                if a[0]=='in': return a[1]
                raise Unknown('write-through-out/star')
        return sb(t)
    # ---------- program walk
    def run(self):
        env=[{}]
        for d in self.globals.values():
            try: self.decl(d,[d.name],Scope(self,None))
            except Unknown as u: self.stats['unknown:'+str(u)]+=1
        return self
    def decl(self,d,path,sc):
        if isinstance(d, ast.ClassDeclaration): self.cls(d,path,sc)
        elif isinstance(d, ast.FunctionDeclaration): self.func(d,path,sc)
        elif isinstance(d, ast.VariableDeclaration): self.var(d,path,sc)
    def var(self,d,path,sc):
        try:
            if self.infer and d.var_type is None and isinstance(d.expr, ast.BottomConstant) and d.expr.t is None:
                self.alarm('omitted-type-with-untyped-bottom-initializer',path,None,None,d.name)
            if self.infer and d.var_type is None:
                act=self.synth(d.expr,path+[d.name],sc)
                rec=conv_any(d.inferred_type)
                self.stats['infer-var']+=1
                if act!=rec:
                    self.stats['infer-var-differs']+=1
                    if not self.le(act,rec): self.alarm('infer-var-not-subtype-of-recorded',path,rec,act)
                sc.inferred[d.name]=act
            else:
                exp=conv_any(d.var_type if d.var_type is not None else d.inferred_type)
                act=self.synth(d.expr,path+[d.name],sc,exp)
                self.expect('var-init',path,act,exp)
        except Unknown as u: self.stats['unknown:'+str(u)]+=1
        sc.add_var(d.name,d)
    def cls(self,d,path,sc):
        csc=Scope(self,sc,cls=d)
        # super call args
        for s in d.superclasses:
            sd=self.classes.get(s.class_type.name)
            if sd is not None and sd.is_final: self.alarm('inherit-final',path,None,None,sd.name)
            if s.args and sd is not None:
                try:
                    _,m=self.recv_inst(conv(s.class_type))
                    if len(s.args)!=len(sd.fields): self.alarm('super-arity',path,None,None)
                    for a,f in zip(s.args,sd.fields):
                        try:
                            ft=self.inst_type(f.field_type,m,{},reading=False)
                            self.expect('super-arg',path,self.synth(a,path,csc,ft),ft)
                        except Unknown as u: self.stats['unknown:'+str(u)]+=1
                except Unknown as u: self.stats['unknown:'+str(u)]+=1
        for f in d.functions: self.func(f,path+[f.name],csc)
        # interfaces extend only interfaces
        if d.class_type == ast.ClassDeclaration.INTERFACE:
            for s in d.superclasses:
                sd=self.classes.get(s.class_type.name)
                if sd is not None and sd.class_type != ast.ClassDeclaration.INTERFACE:
                    self.alarm('interface-extends-class',path,None,None,sd.name)
        # overriding members: equal parameter types and a covariant result after substituting the super type arguments
        own={f.name:f for f in d.functions}
        for (f,m,c) in self.members(d.name,'functions'):
            if c is d or f.name not in own: continue
            g=own[f.name]
            if not getattr(g,'override',False): continue
            try:
                self.stats['override-checks']+=1
                if len(g.params)!=len(f.params):
                    self.alarm('override-arity',path,None,None,f.name); continue
                fm={}
                if f.type_parameters and g.type_parameters and len(f.type_parameters)==len(g.type_parameters):
                    fm={fp.name:('v',gp.name,conv_bound(gp.bound)) for fp,gp in zip(f.type_parameters,g.type_parameters)}
                for gp,fp in zip(g.params,f.params):
                    a=conv_any(gp.param_type); b=subst(subst(conv_any(fp.param_type),m),fm)
                    if not (self.le(a,b) and self.le(b,a)): self.alarm('override-param-type',path+[f.name],b,a,gp.name)
                gr=conv_any(g.ret_type if g.ret_type is not None else g.inferred_type)
                fr=subst(subst(conv_any(f.ret_type if f.ret_type is not None else f.inferred_type),m),fm)
                if not (fr[0]=='c' and fr[1]==self.void) and not self.le(gr,fr): self.alarm('override-result-type',path+[f.name],fr,gr)
            except Unknown as u: self.stats['unknown:'+str(u)]+=1
        # abstract obligations
        if d.is_regular():
            impl={f.name for (f,m,c) in self.members(d.name,'functions') if f.body is not None}
            for (f,m,c) in self.members(d.name,'functions'):
                if f.body is None and f.name not in impl: self.alarm('abstract-not-implemented',path,None,None,f.name)
    def func(self,f,path,sc):
        fsc=Scope(self,sc,func=f)
        for p in f.params:
            if p.default is not None:
                try:
                    pt=conv_any(p.param_type)
                    self.expect('param-default',path,self.synth(p.default,path,sc,pt),pt)
                except Unknown as u: self.stats['unknown:'+str(u)]+=1
            fsc.add_var(p.name,p)
        if f.body is None: return
        try: ret=conv_any(f.ret_type if f.ret_type is not None else f.inferred_type)
        except Unknown as u: self.stats['unknown:'+str(u)]+=1; ret=None
        try:
            act=self.synth(f.body,path,fsc,None if (self.infer and f.ret_type is None) else ret)
            if self.infer and f.ret_type is None and self.lang in ('kotlin','scala') and _calls_itself(f.body, f.name):
                self.alarm('recursive-function-without-declared-result-type',path,None,None,f.name)
            if self.infer and f.ret_type is None:
                self.stats['infer-ret']+=1
                if act!=ret:
                    self.stats['infer-ret-differs']+=1
                    if ret is not None and act is not None and not self.le(act,ret): self.alarm('infer-ret-not-subtype-of-recorded',path,ret,act)
            elif ret is not None and not (ret[0]=='c' and ret[1]==self.void):
                self.expect('func-result',path,act,ret)
        except Unknown as u: self.stats['unknown:'+str(u)]+=1
    def synth(self,e,path,sc,expected=None):
        self.stats['exprs']+=1
        B=lambda n:('c',n,())
        if isinstance(e, ast.BottomConstant):
            if self.infer and e.t is not None and expected is None:
                try: return conv_any(e.t)
                except Unknown: return NOTHING
            return NOTHING
        if isinstance(e, ast.IntegerConstant): return conv(e.integer_type) if e.integer_type is not None else B(self.bt.get_integer_type().name)
        if isinstance(e, ast.RealConstant): return conv(e.real_type)
        if isinstance(e, ast.BooleanConstant): return B(self.boolean)
        if isinstance(e, ast.CharConstant): return B(self.bt.get_char_type().name)
        if isinstance(e, ast.StringConstant): return B(self.bt.get_string_type().name)
        if isinstance(e, ast.Is):
            self.synth(e.lexpr,path,sc); return B(self.boolean)
        if isinstance(e, ast.BinaryOp):
            for x in (e.lexpr,e.rexpr):
                try:
                    t=self.synth(x,path,sc)
                    if isinstance(e, ast.LogicalExpr): self.expect('logical-operand',path,t,B(self.boolean))
                except Unknown as u: self.stats['unknown:'+str(u)]+=1
            return B(self.boolean)
        if isinstance(e, ast.Block):
            bsc=Scope(self,sc); last=B(self.void)
            for i,s in enumerate(e.body):
                if isinstance(s,(ast.VariableDeclaration,ast.FunctionDeclaration)):
                    if isinstance(s, ast.FunctionDeclaration): bsc.add_func(s.name,s)
                    self.decl(s,path+[s.name],bsc); last=B(self.void)
                else:
                    try: last=self.synth(s,path,bsc,expected if i==len(e.body)-1 else None)
                    except Unknown as u:
                        self.stats['unknown:'+str(u)]+=1
                        if i==len(e.body)-1: raise
            return last
        if isinstance(e, ast.Variable):
            t=sc.var_type(e.name)
            return t
        if isinstance(e, ast.Conditional):
            try: self.expect('cond',path,self.synth(e.cond,path,sc),B(self.boolean))
            except Unknown as u: self.stats['unknown:'+str(u)]+=1
            T=conv_any(e.inferred_type)
            tsc=Scope(self,sc)
            if isinstance(e.cond, ast.Is) and isinstance(e.cond.lexpr, ast.Variable) and not e.cond.operator.is_not:
                tsc.smart[e.cond.lexpr.name]=conv_any(e.cond.rexpr)
            for br,s2,k in ((e.true_branch,tsc,'cond-true'),(e.false_branch,Scope(self,sc),'cond-false')):
                self.ctx.append('cond')
                try:
                    if expected is None:
                        # no type is expected at this position (statement position): nothing to judge
                        self.synth(br,path,s2,None); continue
                    n0=len(self.alarms); self.expect(k,path,self.synth(br,path,s2,expected),expected)
                    if len(self.alarms)>n0 and self.alarms[-1][0]==k: self.alarms[-1]=self.alarms[-1][:4]+(str(e).replace(chr(10),' ')[:420],)
                except Unknown as u: self.stats['unknown:'+str(u)]+=1
                finally: self.ctx.pop()
            return T if expected is None else expected
        if isinstance(e, ast.New):
            ct=e.class_type
            T=conv(ct)
            if T[1] in self.classes:
                d=self.classes[T[1]]
                if not d.is_regular(): self.alarm('new-non-regular',path,T,None)
                if len(e.args)!=len(d.fields): self.alarm('new-arity',path,T,None,'%d vs %d'%(len(e.args),len(d.fields)))
                m={p.name:a for p,a in zip(d.type_parameters,T[2])}
                # bounds
                for p,a in zip(d.type_parameters,T[2]):
                    if p.bound is not None and a[0] in ('t','out'):
                        try:
                            b=self.inst_type(p.bound,m,{},True)
                            self.stats['bound-checks']+=1
                            if not self.le(a[1],b): self.alarm('new-typearg-bound',path,b,a[1],p.name)
                        except Unknown as u: self.stats['unknown:'+str(u)]+=1
                if self.infer and getattr(ct,'can_infer_type_args',False):
                    return self.diamond(e,d,T,path,sc,expected)
                for a,f in zip(e.args,d.fields):
                    try:
                        ft=self.inst_type(f.field_type,m,{},reading=False)
                        self.expect('new-arg',path,self.synth(a,path,sc,ft),ft)
                    except Unknown as u: self.stats['unknown:'+str(u)]+=1
            return T
        if isinstance(e, ast.ArrayExpr):
            T=conv(e.array_type)
            for x in e.exprs:
                try: self.expect('array-elem',path,self.synth(x,path,sc,T[2][0][1]),T[2][0][1])
                except Unknown as u: self.stats['unknown:'+str(u)]+=1
            return T
        if isinstance(e, ast.Lambda):
            lsc=Scope(self,sc,func=e)
            for p in e.params: lsc.add_var(p.name,p)
            try:
                ret=conv_any(e.ret_type)
                act=self.synth(e.body,path+[e.name],lsc,None if (ret[0]=='c' and ret[1]==self.void) else ret)
                if not (ret[0]=='c' and ret[1]==self.void): self.expect('lambda-result',path,act,ret)
            except Unknown as u: self.stats['unknown:'+str(u)]+=1
            return conv(e.signature)
        if isinstance(e, ast.FunctionReference):
            if e.receiver is not None:
                try: self.synth(e.receiver,path,sc)
                except Unknown as u: self.stats['unknown:'+str(u)]+=1
            return conv(e.signature)
        if isinstance(e, ast.FieldAccess):
            R=self.synth(e.expr,path,sc)
            if R==NOTHING: raise Unknown('field-on-bottom')
            d,m=self.recv_inst(R)
            for (f,cm,c) in self.members(d.name,'fields'):
                if f.name==e.field:
                    # cm maps declaring class params into d's params terms; compose
                    t=conv_any(f.field_type); t=subst(t,cm)
                    return self._apply_recv(t,m,True)
            self.alarm('field-unresolved',path,R,None,e.field); raise Unknown('field-unresolved')
        if isinstance(e, ast.Assignment):
            try:
                if e.receiver is None:
                    d=sc.var_decl(e.name)
                    if getattr(d,'is_final',True): self.alarm('assign-final',path,None,None,e.name)
                    T=sc.var_type(e.name)
                else:
                    R=self.synth(e.receiver,path,sc)
                    if R==NOTHING: raise Unknown('assign-on-bottom')
                    d,m=self.recv_inst(R); T=None
                    for (f,cm,c) in self.members(d.name,'fields'):
                        if f.name==e.name:
                            if f.is_final: self.alarm('assign-final-field',path,None,None,e.name)
                            T=self._apply_recv(subst(conv_any(f.field_type),cm),m,False)
                    if T is None: self.alarm('assign-unresolved',path,R,None,e.name); raise Unknown('x')
                self.expect('assign',path,self.synth(e.expr,path,sc,T),T)
            except OnlyBottom:
                try: self.only_bottom('assign-through-projected-receiver',e.expr,path,sc,e.name)
                except Unknown as u: self.stats['unknown:'+str(u)]+=1
            except Unknown as u: self.stats['unknown:'+str(u)]+=1
            return B(self.void)
        if isinstance(e, ast.FunctionCall):
            return self.call(e,path,sc,expected)
        raise Unknown('expr-kind:'+type(e).__name__)
    def diamond(self,e,d,T,path,sc,expected):
        """omitted constructor type arguments (inference mode).  Only the DEFINITE failure is reported: in
        Kotlin a type parameter that occurs in no constructor parameter type, is not linked to one through a
        bound and gets no expected type cannot be inferred ("not enough information to infer type variable").
        Java/Groovy fall back to the bound/Object, Scala to Nothing; Java is judged by javac."""
        self.stats['diamond']+=1
        def occurs(t,name):
            if t[0]=='v': return t[1]==name
            if t[0]=='c': return any(a[0]!='*' and occurs(a[1],name) for a in t[2])
            return False
        have_expected = expected is not None and expected[0]=='c' and expected[1]==T[1]
        determinable=set()
        for f,a_ in zip(d.fields,list(e.args)+[None]*len(d.fields)):
            if isinstance(a_, ast.BottomConstant) and a_.t is None: continue    # `null` / TODO() determines nothing
            try: ft=conv_any(f.field_type)
            except Unknown: continue
            for p in d.type_parameters:
                if occurs(ft,p.name): determinable.add(p.name)
        changed=True
        while changed:
            changed=False
            for p in d.type_parameters:
                if p.name not in determinable and p.bound is not None:
                    try: b=conv_bound(p.bound)
                    except Unknown: b=None
                    if b is not None and any(occurs(b,q) for q in determinable):
                        determinable.add(p.name); changed=True
        missing=[p.name for p in d.type_parameters if p.name not in determinable]
        if missing and not have_expected and self.lang=='kotlin':
            self.stats['diamond-uninferable']+=1
            self.alarm('kotlin-cannot-infer-type-argument',path,T,expected,'type parameter(s) %s of %s occur in no constructor parameter'%(missing,T[1])+(' [in conditional branch]' if 'cond' in self.ctx else ''))
        m={p.name:a for p,a in zip(d.type_parameters,T[2])}
        for a,f in zip(e.args,d.fields):
            try:
                try: ft=self.inst_type(f.field_type,m,{},reading=False)
                except Unknown: ft=None
                self.synth(a,path,sc,ft)
            except Unknown as u: self.stats['unknown:'+str(u)]+=1
        return T
    def _apply_recv(self,t,m,reading):
        mm={}
        for k,a in m.items():
            mm[k]=a
        def sb(t,top,inv_path):
            if t[0]=='v' and t[1] in mm:
                a=mm[t[1]]
                if a[0]=='t': return a[1]
                if top and reading and a[0]=='out': return a[1]
                if top and not reading and a[0]=='in': return a[1]
                if not top and not reading and inv_path: raise OnlyBottom('only-bottom:'+t[1])
                raise Unknown('member-type-through-projection')
            if t[0]=='c':
                info=self.tb.cls.get(t[1]); args=[]
                for i,x in enumerate(t[2]):
                    if x[0]=='*': args.append(x); continue
                    pv=info.params[i][1] if info is not None and i<len(info.params) else None
                    args.append((x[0],sb(x[1],False,inv_path and x[0]=='t' and pv=='inv')))
                return ('c',t[1],tuple(args))
            return t
        return sb(t,True,True)
    def only_bottom(self,kind,expr,path,sc,what):
        """judge a write position that only the bottom value can fill (see OnlyBottom)"""
        self.stats['positions']+=1; self.stats['only-bottom-positions']+=1
        if isinstance(expr, ast.BottomConstant): return
        at=self.synth(expr,path,sc,None)
        if at!=NOTHING: self.alarm(kind,path,None,at,what)
    def call(self,e,path,sc,expected=None):
        B=lambda n:('c',n,())
        # resolve
        params=None; ret=None; fdecl=None; m={}; cm={}
        if e.receiver is not None:
            R=self.synth(e.receiver,path,sc)
            if R==NOTHING: raise Unknown('call-on-bottom')
            d,m=self.recv_inst(R)
            if e.is_ref_call:
                for (f,cm_,c) in self.members(d.name,'fields'):
                    if f.name==e.func:
                        sig=self._apply_recv(subst(conv_any(f.field_type),cm_),m,True)
                        return self.apply_sig(e,sig,path,sc)
                self.alarm('refcall-unresolved',path,R,None,e.func); raise Unknown('x')
            for (f,cm_,c) in self.members(d.name,'functions'):
                if f.name==e.func: fdecl=f; cm=cm_; break
            if fdecl is None: self.alarm('method-unresolved',path,R,None,e.func); raise Unknown('x')
        else:
            if e.is_ref_call:
                sig=sc.var_type(e.func)
                return self.apply_sig(e,sig,path,sc)
            r=sc.func(e.func)
            if r is None: self.alarm('func-unresolved',path,None,None,e.func); raise Unknown('x')
            fdecl,cm,m=r
        fm={}
        # the callee's own type parameters are renamed apart first: substituting the receiver's
        # arguments must not capture them (an outer F_M flowing in through the receiver vs the
        # callee's own F_M), nor may the explicit type arguments be captured by the receiver map
        ren={}
        if fdecl.type_parameters:
            if len(e.type_args)!=len(fdecl.type_parameters): self.alarm('call-typearg-arity',path,None,None,e.func); raise Unknown('x')
            self._fresh=getattr(self,'_fresh',0)+1
            for p in fdecl.type_parameters:
                ren[p.name]=('v','%s#%d'%(p.name,self._fresh),None)
            for p,a in zip(fdecl.type_parameters,e.type_args):
                fm[ren[p.name][1]]=conv_any(a)
            for p,a in zip(fdecl.type_parameters,e.type_args):
                if p.bound is not None:
                    try:
                        b=subst(self._apply_recv(subst(subst(conv_any(p.bound),ren),cm),m,True),fm)
                        self.stats['bound-checks']+=1
                        if not self.le(fm[ren[p.name][1]],b): self.alarm('call-typearg-bound',path,b,fm[ren[p.name][1]],e.func+'.'+p.name)
                    except Unknown as u: self.stats['unknown:'+str(u)]+=1
        if self.infer and fdecl.type_parameters and getattr(e,'can_infer_type_args',False) and self.lang=='kotlin':
            # omitted type arguments of a generic call: a type parameter that occurs in no parameter type whose
            # argument determines it, and (absent an expected type) not in the result type, cannot be inferred
            def occurs(t,name):
                if t[0]=='v': return t[1]==name
                if t[0]=='c': return any(a[0]!='*' and occurs(a[1],name) for a in t[2])
                return False
            det=set()
            for p_,a_ in zip(fdecl.params,e.args):
                if isinstance(a_.expr, ast.BottomConstant) and a_.expr.t is None: continue
                try: pt_=conv_any(p_.param_type)
                except Unknown: continue
                for tp_ in fdecl.type_parameters:
                    if occurs(pt_,tp_.name): det.add(tp_.name)
            if expected is not None:
                try:
                    rt_=conv_any(fdecl.ret_type if fdecl.ret_type is not None else fdecl.inferred_type)
                    for tp_ in fdecl.type_parameters:
                        if occurs(rt_,tp_.name): det.add(tp_.name)
                except Unknown: pass
            missing=[tp_.name for tp_ in fdecl.type_parameters if tp_.name not in det]
            if missing:
                self.alarm('kotlin-cannot-infer-type-argument',path,None,expected,'type parameter(s) %s of %s cannot be inferred'%(missing,e.func)+(' [in conditional branch]' if 'cond' in self.ctx else ''))
        # args
        ps=list(fdecl.params); args=list(e.args)
        named={a.name for a in args if a.name}
        # default values are inherited by overriding declarations (Kotlin, Scala; Groovy through the generated
        # overloads of the base class): a parameter is optional if any declaration of the method in the
        # receiver's hierarchy gives it a default
        inherited=set()
        owner=None
        if e.receiver is not None:
            owner=d
        else:
            s_=sc
            while s_ is not None and owner is None:
                owner=s_.cls
                s_=s_.parent
        if owner is not None:
            for (f2,_m,_c) in self.members(owner.name,'functions'):
                if f2.name==fdecl.name and len(f2.params)==len(ps):
                    for i2,p2 in enumerate(f2.params):
                        if p2.default is not None: inherited.add(i2)
        req=[p for i2,p in enumerate(ps) if p.default is None and not p.vararg and i2 not in inherited]
        pos=[a for a in args if not a.name]
        if ps and ps[-1].vararg:
            if len(pos)<len(ps)-1-sum(1 for p in ps[:-1] if p.default is not None): self.alarm('call-arity',path,None,None,e.func)
        else:
            if len(pos)+len(named)>len(ps) or len(pos)+len(named)<len(req): self.alarm('call-arity',path,None,None,'%s %d args %d params'%(e.func,len(args),len(ps)))
        pi=0
        for a in args:
            if a.name:
                p=next((p for p in ps if p.name==a.name),None)
                if p is None: self.alarm('call-named-unresolved',path,None,None,a.name); continue
            else:
                # positional: skip defaulted params? generator appends positionally for non-default params
                while pi<len(ps) and ps[pi].default is not None and self.lang in ('kotlin','scala') and False: pi+=1
                if pi>=len(ps):
                    p=ps[-1] if ps and ps[-1].vararg else None
                    if p is None: continue
                else:
                    p=ps[pi]
                    if not p.vararg: pi+=1
            try:
                pt=p.param_type
                if p.vararg:
                    pt_t=conv_any(pt); pt_t=pt_t[2][0][1]
                else: pt_t=conv_any(pt)
                pt_t=subst(self._apply_recv(subst(subst(pt_t,ren),cm),m,False),fm)
                self.expect('call-arg',path,self.synth(a.expr,path,sc,pt_t),pt_t)
            except OnlyBottom:
                try: self.only_bottom('call-arg-through-projected-receiver',a.expr,path,sc,fdecl.name+'.'+p.name)
                except Unknown as u: self.stats['unknown:'+str(u)]+=1
            except Unknown as u: self.stats['unknown:'+str(u)]+=1
        rt=fdecl.ret_type if fdecl.ret_type is not None else fdecl.inferred_type
        return subst(self._apply_recv(subst(subst(conv_any(rt),ren),cm),m,True),fm)
    def apply_sig(self,e,sig,path,sc):
        while sig[0]=='v' and sig[2] is not None: sig=sig[2]
        if sig[0]!='c' or not sig[1].startswith('Function'): self.alarm('refcall-not-function-type',path,sig,None,e.func); raise Unknown('x')
        ps=sig[2][:-1]
        if len(ps)!=len(e.args): self.alarm('refcall-arity',path,sig,None,e.func)
        for a,p in zip(e.args,ps):
            try:
                if p[0]=='t' or p[0]=='in': pt=p[1]
                else: raise Unknown('refcall-param-out/star')
                self.expect('refcall-arg',path,self.synth(a.expr,path,sc,pt),pt)
            except Unknown as u: self.stats['unknown:'+str(u)]+=1
        r=sig[2][-1]
        if r[0] in ('t','out'): return r[1]
        raise Unknown('refcall-ret-in/star')

def _calls_itself(body, name):
    """does the expression (not a nested declaration) contain a receiver-less call of `name`?"""
    from mc import irwalk
    for _, o in irwalk.walk(body):
        if isinstance(o, ast.FunctionCall) and o.func == name and o.receiver is None and not o.is_ref_call:
            return True
    return False


class Scope:
    def __init__(self,ck,parent,cls=None,func=None):
        self.ck=ck; self.parent=parent; self.cls=cls; self.funcd=func; self.vars={}; self.funcs={}; self.smart={}; self.inferred={}
    def add_var(self,n,d): self.vars[n]=d
    def add_func(self,n,d): self.funcs[n]=d
    def var_decl(self,n):
        s=self
        while s is not None:
            if n in s.vars: return s.vars[n]
            if s.cls is not None:
                for (f,cm,c) in s.ck.members(s.cls.name,'fields'):
                    if f.name==n: return f
            s=s.parent
        d=self.ck.globals.get(n)
        if isinstance(d, ast.VariableDeclaration): return d
        self.ck.alarm('var-unresolved',[n],None,None,n); raise Unknown('var-unresolved')
    def var_type(self,n):
        s=self
        while s is not None:
            if n in s.smart: return s.smart[n]
            if n in s.inferred: return s.inferred[n]
            if n in s.vars:
                d=s.vars[n]; return conv_any(d.get_type())
            if s.cls is not None:
                for (f,cm,c) in s.ck.members(s.cls.name,'fields'):
                    if f.name==n: return subst(conv_any(f.field_type),cm)
            s=s.parent
        d=self.ck.globals.get(n)
        if isinstance(d, ast.VariableDeclaration): return conv_any(d.get_type())
        self.ck.alarm('var-unresolved',[n],None,None,n); raise Unknown('var-unresolved')
    def func(self,n):
        s=self
        while s is not None:
            if n in s.funcs: return s.funcs[n],{},{}
            if s.funcd is not None and getattr(s.funcd,'name',None)==n and isinstance(s.funcd, ast.FunctionDeclaration): return s.funcd,{},{}
            if s.cls is not None:
                for (f,cm,c) in s.ck.members(s.cls.name,'functions'):
                    if f.name==n: return f,cm,{}
            s=s.parent
        d=self.ck.globals.get(n)
        if isinstance(d, ast.FunctionDeclaration): return d,{},{}
        return None
