"""Reference model of the symbol table, written from the statement of C16 (a scoped map),
not from src/ir/context.py.

A namespace holds one insertion-ordered map per entity kind and one declaration map (filled
by function/variable/class additions).  The model answers three-valued where the statement
leaves room (global queries: candidate sets), exactly elsewhere.
"""
from collections import OrderedDict

KINDS = ('types', 'funcs', 'lambdas', 'vars', 'classes')
DECL_KINDS = ('funcs', 'vars', 'classes')


class ScopedMapModel:
    def __init__(self):
        self.tables = {}     # ns -> kind/'decls' -> OrderedDict(name -> value)
        self.home = {}       # id(value) -> ns   (until the name bound to it is removed)
        self.binder = {}     # (ns, name) -> kind that most recently bound name in 'decls'

    def _tbl(self, ns):
        t = self.tables.get(ns)
        if t is None:
            t = self.tables[ns] = {k: OrderedDict() for k in KINDS + ('decls',)}
        return t

    # ---- updates ------------------------------------------------------------------------
    def add(self, ns, kind, name, value):
        t = self._tbl(ns)
        t[kind][name] = value            # re-adding keeps the first-insertion position
        if kind in DECL_KINDS:
            t['decls'][name] = value
            self.binder[(ns, name)] = kind
        if value is not None:
            self.home[id(value)] = ns

    def remove(self, ns, kind, name):
        t = self.tables.get(ns)
        if t is None:
            return
        tabs = [kind] + (['decls'] if kind in DECL_KINDS else [])
        for k in tabs:
            if name in t[k]:
                v = t[k].pop(name)
                if v is not None:
                    self.home.pop(id(v), None)
        if kind in DECL_KINDS:
            self.binder.pop((ns, name), None)

    def removal_enabled(self, ns, kind, name):
        """Removals the property describes: through the kind that currently binds the name,
        or of a name that is bound nowhere in the namespace (a no-op)."""
        t = self.tables.get(ns)
        if t is None:
            return True
        bound_in = [k for k in KINDS if name in t[k]]
        if not bound_in:
            return True
        if kind not in bound_in:
            return False
        if kind in DECL_KINDS:
            # other declaration kinds must not hold the same name (removing would tear the
            # shared declaration map); lambdas/types live in their own maps only
            return [k for k in bound_in if k in DECL_KINDS] == [kind]
        return True

    # ---- queries ------------------------------------------------------------------------
    def current(self, ns, kind, none):
        d = self.tables.get(ns, {}).get(kind, OrderedDict())
        return [(k, v) for k, v in d.items() if none or v is not None]

    def path(self, ns, kind, none):
        """union along the namespace path, inner entries shadow outer ones (a mapping)."""
        out = {}
        for i in range(1, len(ns) + 1):
            for k, v in self.tables.get(ns[:i], {}).get(kind, {}).items():
                out[k] = v
        return {k: v for k, v in out.items() if none or v is not None}

    def reachable(self, root, through_none):
        seen = []
        stack = [root]
        while stack:
            n = stack.pop()
            if n in seen:
                continue
            seen.append(n)
            t = self.tables.get(n)
            if not t:
                continue
            for kind in ('funcs', 'classes'):
                for name, v in t[kind].items():
                    if v is not None or through_none:
                        stack.append(n + (name,))
        return seen

    def glob_bounds(self, ns, kind, none):
        """-> (must_keys, may_pairs): every name bound in a surely reachable namespace must be
        a key; every returned pair must be an entry of a possibly reachable namespace."""
        root = (ns[0],)
        must = set()
        for n in self.reachable(root, through_none=False):
            for k, v in self.tables.get(n, {}).get(kind, {}).items():
                if none or v is not None:
                    must.add(k)
        may = set()
        for n in self.reachable(root, through_none=True):
            for k, v in self.tables.get(n, {}).get(kind, {}).items():
                if none or v is not None:
                    may.add((k, id(v)))
        return must, may

    def lookup(self, ns, name, limit=None):
        """innermost enclosing namespace whose declaration map binds `name` (artificial None
        entries are transparent); with `limit`, namespaces outside `limit` are not searched."""
        while ns:
            if limit is not None and ns[:len(limit)] != tuple(limit):
                return None
            v = self.tables.get(ns, {}).get('decls', {}).get(name)
            if v is not None:
                return ns, v
            ns = ns[:-1]
        return None

    def canon(self):
        """canonical form: values renamed by first appearance in a sorted traversal."""
        ren = {}
        out = []
        for ns in sorted(self.tables):
            t = self.tables[ns]
            row = []
            for k in KINDS + ('decls',):
                ents = []
                for name, v in t[k].items():
                    if v is None:
                        ents.append((name, None))
                    else:
                        ents.append((name, ren.setdefault(id(v), len(ren))))
                row.append(tuple(ents))
            out.append((ns, tuple(row)))
        homes = tuple(sorted((ren[i], ns) for i, ns in self.home.items() if i in ren))
        binders = tuple(sorted(self.binder.items()))
        return (tuple(out), homes, binders)
