"""IR type objects -> immutable reference terms (structural reading only: attributes name,
supertypes, type_args, t_constructor.type_parameters, bound, variance).  Never calls is_subtype,
substitute_type, get_supertypes, ... of /repo."""
from mc.ref import rsub
from mc.ref.rsub import NOTHING


class TermConv:
    def __init__(self, tb, builtin_names=None):
        self.tb = tb
        self.builtin_names = dict(builtin_names or {})    # python class of a builtin -> name

    # -- builtins -------------------------------------------------------------------------------
    def builtin_name(self, t):
        n = self.builtin_names.get(type(t))
        if n is None:
            n = type(t).__name__
        if getattr(t, 'primitive', False):
            n = n + '~primitive'
        return n

    def _register_builtin(self, t):
        n = self.builtin_name(t)
        if n in self.tb.cls:
            return n
        self.tb.add(n, (), (), builtin=True)     # placeholder first (cycles)
        sup = []
        for s in list(t.supertypes):
            sn = self._register_builtin(s)
            if sn != n:
                sup.append(('c', sn, ()))
        self.tb.add(n, (), sup, builtin=True)
        return n

    # -- user classes ---------------------------------------------------------------------------
    def _register_constructor(self, tc):
        if tc.name in self.tb.cls:
            return
        self.tb.add(tc.name, [(p.name, 'inv', None) for p in tc.type_parameters], ())  # placeholder
        params = []
        for p in tc.type_parameters:
            params.append((p.name, self.variance(p.variance), self.term(p.bound) if p.bound is not None else None))
        supers = [self.term(s) for s in tc.supertypes]
        self.tb.add(tc.name, params, supers)

    def _register_simple(self, t):
        if t.name in self.tb.cls:
            return
        self.tb.add(t.name, (), ())
        self.tb.add(t.name, (), [self.term(s) for s in t.supertypes])

    @staticmethod
    def variance(v):
        return {0: 'inv', 1: 'out', 2: 'in'}[v.value]

    # -- conversion -----------------------------------------------------------------------------
    def term(self, t):
        from src.ir import types as tp
        if t is None:
            return None
        if isinstance(t, tp.NothingType) or (isinstance(t, tp.Builtin) and t.name == 'Nothing'):
            return NOTHING
        if isinstance(t, tp.Builtin):
            return ('c', self._register_builtin(t), ())
        if isinstance(t, tp.TypeParameter):
            return ('v', t.name, self.term(t.bound) if t.bound is not None else None)
        if isinstance(t, tp.WildCardType):
            return ('wild',) + self.arg(t)
        if isinstance(t, tp.ParameterizedType):
            self._register_constructor(t.t_constructor)
            return ('c', t.name, tuple(self.arg(a) for a in t.type_args))
        if isinstance(t, tp.TypeConstructor):
            self._register_constructor(t)
            return ('tc', t.name)
        if isinstance(t, tp.SimpleClassifier):
            self._register_simple(t)
            return ('c', t.name, ())
        return ('other', type(t).__name__, getattr(t, 'name', None))

    def arg(self, a):
        from src.ir import types as tp
        if isinstance(a, tp.WildCardType):
            if a.bound is None or a.variance.value == 0:
                return ('*',)
            return ('out' if a.variance.value == 1 else 'in', self.term(a.bound))
        return ('t', self.term(a))


def is_bare_constructor(term):
    return term is not None and term[0] == 'tc'


def has_bare_constructor(term):
    if term is None:
        return False
    if term[0] == 'tc':
        return True
    if term[0] == 'c':
        return any(a[0] != '*' and has_bare_constructor(a[1]) for a in term[2])
    if term[0] == 'v':
        return has_bare_constructor(term[2])
    return False


def has_primitive(term):
    if term is None:
        return False
    if term[0] == 'c':
        if term[1].endswith('~primitive'):
            return True
        return any(a[0] != '*' and has_primitive(a[1]) for a in term[2])
    return False
