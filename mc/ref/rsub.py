"""R-SUB -- declarative subtyping over immutable terms (reference for C06, C08, C09, C10, C01, C04).

Terms
  ('c', name, args)      class / builtin type; args: tuple of ('t',T) | ('out',T) | ('in',T) | ('*',)
  ('v', name, bound)     type variable in scope (bound: term or None)
  ('cap', id, uppers, lower)   captured type variable (fresh per capture)
  NOTHING
Class table: name -> Cls(params=[(pname, variance, bound)], supers=[terms over ('v', pname, ..)])

Two readings are computed:
  must : literal reading (Kotlin spec containment; an invariant position needs syntactically equal
         arguments; the top type is reached only through declared supertypes; declared bounds are
         not used to shrink a projection)
  may  : liberal reading (an invariant position needs mutual subtyping, so a redundant projection
         `out U` on a covariant parameter is the same type as `U`; every type is below the top
         type; a declared bound caps the upper end of `in L` / `*` and of captured variables)
must implies may.  Soundness alarms use `may`, exactness is judged only where must == may.
"""
import itertools

NOTHING = ('nothing',)
_capid = itertools.count(1)


class Cls:
    __slots__ = ('params', 'supers', 'builtin')

    def __init__(self, params=(), supers=(), builtin=False):
        self.params = tuple(params)     # (pname, variance in {'inv','out','in'}, bound term or None)
        self.supers = tuple(supers)
        self.builtin = builtin


class Table:
    def __init__(self, top):
        self.cls = {}
        self.top = top

    def add(self, name, params=(), supers=(), builtin=False):
        self.cls[name] = Cls(params, supers, builtin)

    def top_term(self):
        return ('c', self.top, ())


def subst(t, m):
    k = t[0]
    if k == 'v':
        r = m.get(t[1])
        if r is not None:
            return r
        if t[2] is not None:
            return ('v', t[1], subst(t[2], m))
        return t
    if k == 'c':
        if not t[2]:
            return t
        return ('c', t[1], tuple(a if a[0] == '*' else (a[0], subst(a[1], m)) for a in t[2]))
    return t


def interval(tb, a, variance, cap_top):
    """the set of types an argument may stand for, as (lower, upper); cap_top is the upper end
    of an `in` / `*` projection"""
    if a[0] == '*':
        return (NOTHING, cap_top)
    if a[0] == 'out':
        return (NOTHING, a[1])
    if a[0] == 'in':
        return (a[1], cap_top)
    if variance == 'out':
        return (NOTHING, a[1])
    if variance == 'in':
        return (a[1], cap_top)
    return (a[1], a[1])


def _arg_map(tb, info, args):
    return {p[0]: (a[1] if a[0] != '*' else tb.top_term()) for p, a in zip(info.params, args)}


def capture(tb, S, mode):
    info = tb.cls[S[1]]
    m = {}
    TOP = tb.top_term()
    for (pn, var, b), a in zip(info.params, S[2]):
        if a[0] == 't':
            m[pn] = a[1]
        elif a[0] == 'out':
            m[pn] = ('cap', next(_capid), (a[1],), None)
        elif a[0] == 'in':
            m[pn] = ('cap', next(_capid), (), a[1])
        else:
            m[pn] = ('cap', next(_capid), (), None)
    for (pn, var, b), a in zip(info.params, S[2]):
        if a[0] != 't':
            c = m[pn]
            ups = c[2]
            if mode == 'may' and b is not None:
                ups = ups + (subst(b, m),)
            if not ups:
                ups = (TOP,)
            m[pn] = ('cap', c[1], ups, c[3])
    return m


def sub(tb, S, T, mode='may', depth=0):
    if S == T:
        return True
    if S == NOTHING:
        return True
    if T == NOTHING:
        return False
    if T[0] == 'c' and T[1] == tb.top and mode == 'may':
        return True
    if depth > 16:
        return False
    ks, kt = S[0], T[0]
    if ks == 'v' and kt == 'v' and S[1] == T[1]:
        return True
    if ks == 'cap':
        return any(sub(tb, u, T, mode, depth + 1) for u in S[2])
    if kt == 'cap':
        return T[3] is not None and sub(tb, S, T[3], mode, depth + 1)
    if ks == 'v':
        return S[2] is not None and sub(tb, S[2], T, mode, depth + 1)
    if kt == 'v':
        return False
    if ks == 'c' and kt == 'c':
        info = tb.cls.get(S[1])
        if info is None:
            return False
        if S[1] == T[1]:
            if len(S[2]) != len(T[2]):
                return False
            TOP = tb.top_term()
            mS = _arg_map(tb, info, S[2]) if mode == 'may' else None
            for (pn, var, b), a, bb in zip(info.params, S[2], T[2]):
                if mode == 'must' and var == 'inv' and a[0] == 't' and bb[0] == 't':
                    if a[1] != bb[1]:
                        return False
                    continue
                # liberal reading: the declared bound (with the other arguments of S substituted)
                # caps what an `in` / `*` argument of S may stand for; the target side is never
                # shrunk
                capS = subst(b, mS) if (mode == 'may' and b is not None) else TOP
                la, ua = interval(tb, a, var, capS)
                lb, ub = interval(tb, bb, var, TOP)
                if not (sub(tb, lb, la, mode, depth + 1) and sub(tb, ua, ub, mode, depth + 1)):
                    return False
            return True
        if not info.supers:
            return False
        if info.params:
            m = capture(tb, S, mode)
            return any(sub(tb, subst(s, m), T, mode, depth + 1) for s in info.supers)
        return any(sub(tb, s, T, mode, depth + 1) for s in info.supers)
    return False


def must(tb, S, T):
    return sub(tb, S, T, 'must')


def may(tb, S, T):
    return sub(tb, S, T, 'may')


def supertypes(tb, S, mode='may'):
    """nominal supertypes of a class term (transitively), by substitution (no capture needed for
    non-projected arguments; projected arguments are captured)"""
    out = []
    seen = set()
    stack = [S]
    while stack:
        t = stack.pop()
        if t in seen or t[0] != 'c':
            continue
        seen.add(t)
        out.append(t)
        info = tb.cls.get(t[1])
        if info is None:
            continue
        m = capture(tb, t, mode) if info.params else {}
        for s in info.supers:
            stack.append(subst(s, m))
    return out


def show(t):
    if t is None:
        return 'None'
    k = t[0]
    if k == 'c':
        if not t[2]:
            return t[1]
        return t[1] + '<' + ', '.join('*' if a[0] == '*' else ('' if a[0] == 't' else a[0] + ' ') + show(a[1])
                                      for a in t[2]) + '>'
    if k == 'v':
        return t[1] + ('' if t[2] is None else ':' + show(t[2]))
    if k == 'nothing':
        return 'Nothing'
    if k == 'cap':
        return 'CAP(%s%s)' % (' & '.join(show(u) for u in t[2]), '' if t[3] is None else ' super ' + show(t[3]))
    return str(t)


def has_star(t):
    return t[0] == 'c' and any(a[0] == '*' or has_star(a[1]) for a in t[2])


def has_var(t):
    if t[0] in ('v', 'cap'):
        return True
    return t[0] == 'c' and any(a[0] != '*' and has_var(a[1]) for a in t[2])


def depth_of(t):
    if t[0] != 'c' or not t[2]:
        return 0
    return 1 + max((depth_of(a[1]) for a in t[2] if a[0] != '*'), default=0)


def abstract(t):
    """identifier-free shape of a term (for finding identities)"""
    if t[0] == 'c':
        if not t[2]:
            return '.'
        return 'app(' + ','.join('*' if a[0] == '*' else ('' if a[0] == 't' else a[0] + ' ') + abstract(a[1])
                                 for a in t[2]) + ')'
    if t[0] == 'v':
        return 'var'
    if t[0] == 'nothing':
        return 'Nothing'
    return 'cap'
