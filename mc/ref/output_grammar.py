"""Generative models of what each compiler prints for a batch (C14).  Ground truth is known by
construction.  Formats: javac 17 (checked against the real compiler by the javac server), kotlinc
1.x, groovyc 4 (--compile-static), scalac 3 (-color never -nowarn), as documented upstream and in
the adapters' own regex comments -- kotlinc/groovyc/scalac are not installed (assumption).
"""
import itertools
import re

# message bodies: (first line, continuation lines).  Chosen to collide with the adapters' own
# delimiters where the real compilers do print such text.
MESSAGES = {
    'java': [
        ('incompatible types: String cannot be converted to Integer', ['    Integer x = "a";', '                ^']),
        ('cannot find symbol', ['    foo(y);', '        ^', '  symbol:   variable y', '  location: class Main']),
        ('method m in class A<T> cannot be applied to given types;',
         ['    a.m(1);', '     ^', '  required: String', '  found:    int',
          '  reason: argument mismatch; int cannot be converted to String']),
        ('incompatible types: bad type in conditional expression',
         ['    Number n = (b ? "error: x" : 1);', '                    ^']),
    ],
    'kotlin': [
        ('type mismatch: inferred type is String but Int was expected', ['    val x: Int = "a"', '                 ^']),
        ('unresolved reference: y', ['    foo(y)', '        ^']),
        ('none of the following functions can be called with the arguments supplied: ', ['public fun m(x: Int): Unit defined in A', '    a.m("error: 1")']),
    ],
    'groovy': [
        ('[Static type checking] - Cannot assign value of type java.lang.String to variable of type int',
         [' @ line 12, column 5.', '       int x = "a"', '       ^']),
        ('[Static type checking] - Cannot find matching method A#m(int). Please check if the declared type is correct and if the method exists.',
         [' @ line 3, column 1.', '   a.m(1)', '   ^']),
        ('[Static type checking] - Incompatible generic argument types. Cannot assign A<java.lang.Integer> to: A<java.lang.Number>',
         [' @ line 7, column 9.', '   A<Number> y = x', '           ^']),
    ],
    'scala': [
        ('[E007] Type Mismatch Error', ['3 |  val x: Int = "a"', '  |               ^^^', '  |               Found:    ("a" : String)', '  |               Required: Int']),
        ('[E006] Not Found Error', ['9 |  y', '  |  ^', '  |  Not found: y']),
        ('Error', ['4 |  val f: Int => Int = x => -x', '  |  ^', '  |  some message']),
    ],
}
WARNING_MESSAGES = {
    'java': ('[unchecked] unchecked cast', ['    T t = (T) o;', '              ^']),
    'kotlin': ('variable \'x\' is never used', ['    val x = 1', '        ^']),
    'groovy': None,        # groovyc prints no warnings for static type checking
    'scala': ('Warning', ['4 | foo', '  | ^', '  | unused']),
}
FILENAME = {'java': 'Main.java', 'kotlin': 'program.kt', 'groovy': 'Main.groovy', 'scala': 'Main.scala'}


def diag_text(lang, path, kind, mi, line=3):
    """-> (text, header_line) of one diagnostic"""
    if kind == 'error':
        first, rest = MESSAGES[lang][mi]
    else:
        first, rest = WARNING_MESSAGES[lang]
    if lang == 'java':
        head = '%s:%d: %s: %s' % (path, line, kind, first)
        return head + '\n' + '\n'.join(rest) + '\n', head
    if lang == 'kotlin':
        head = '%s:%d:5: %s: %s' % (path, line, kind, first)
        return head + '\n' + '\n'.join(rest) + '\n', head
    if lang == 'groovy':
        head = '%s: %d: %s' % (path, line, first)
        return head + '\n' + '\n'.join(rest) + '\n\n', head
    # scala 3
    if kind == 'error':
        head = '-- %s: %s:%d:15 %s' % (first, path, line, '-' * 20)
    else:
        head = '-- %s: %s:%d:2 %s' % (first, path, line, '-' * 20)
    return head + '\n' + '\n'.join(rest) + '\n', head


def preamble(lang, nerr):
    if lang == 'groovy' and nerr:
        return 'org.codehaus.groovy.control.MultipleCompilationErrorsException: startup failed:\n'
    return ''


def summary(lang, nerr, nwarn):
    if lang == 'java':
        s = ''
        if nerr:
            s += '%d error%s\n' % (nerr, '' if nerr == 1 else 's')
        if nwarn:
            s += '%d warning%s\n' % (nwarn, '' if nwarn == 1 else 's')
        return s
    if lang == 'groovy':
        return '%d error%s\n' % (nerr, '' if nerr == 1 else 's') if nerr else ''
    if lang == 'scala':
        s = ''
        if nwarn:
            s += '%d warning%s found\n' % (nwarn, '' if nwarn == 1 else 's')
        if nerr:
            s += '%d error%s found\n' % (nerr, '' if nerr == 1 else 's')
        return s
    if lang == 'kotlin':
        return ''
    return ''


NOTES = {
    'java': 'Note: Some input files use unchecked or unsafe operations.\nNote: Recompile with -Xlint:unchecked for details.\n',
    'kotlin': 'warning: some JAR files in the classpath have the Kotlin Runtime library bundled into them.\n',
    'groovy': '',
    'scala': '',
}

CRASH = {
    'java': 'An exception has occurred in the compiler (17.0.1). Please file a bug against the Java compiler.\n'
            'java.lang.NullPointerException: Cannot invoke "com.sun.tools.javac.code.Type.getTag()"\n'
            '\tat jdk.compiler/com.sun.tools.javac.comp.Attr.visitApply(Attr.java:2565)\n'
            '\tat jdk.compiler/com.sun.tools.javac.tree.JCTree$JCMethodInvocation.accept(JCTree.java:1797)\n',
    'kotlin': 'exception: org.jetbrains.kotlin.backend.common.BackendException: Backend Internal error: Exception during IR lowering\n'
              'File being compiled: /tmp/x/program.kt\n'
              '\tat org.jetbrains.kotlin.backend.common.CodegenUtil.reportBackendException(CodegenUtil.kt:239)\n',
    'groovy': '>>> a serious error occurred: BUG! exception in phase \'instruction selection\' in source unit\n'
              'java.lang.NullPointerException\n'
              '\tat org.codehaus.groovy.transform.stc.StaticTypeCheckingVisitor.visitMethodCallExpression(StaticTypeCheckingVisitor.java:3400)\n',
    'scala': 'exception occurred while typechecking /tmp/x/Main.scala\n'
             'java.lang.AssertionError: assertion failed\n'
             '\tat dotty.tools.dotc.typer.Typer.typedUnadapted(Typer.scala:2900)\n',
}
# further shapes of a compiler-internal stack trace (index 0 is CRASH[lang]): an exception escaping main, an
# exception type outside java.lang whose trace only passes through java.lang frames, a wrapped exception
CRASH_VARIANTS = {
    'java': [CRASH['java'],
             'Exception in thread "main" java.lang.StackOverflowError\n'
             '\tat jdk.compiler/com.sun.tools.javac.comp.Attr.visitSelect(Attr.java:4136)\n'
             '\tat jdk.compiler/com.sun.tools.javac.tree.JCTree$JCFieldAccess.accept(JCTree.java:2414)\n',
             'An exception has occurred in the compiler (17.0.1). Please file a bug against the Java compiler.\n'
             'com.sun.tools.javac.code.Symbol$CompletionFailure: class file for p.Q not found\n'
             '\tat jdk.compiler/com.sun.tools.javac.comp.Check.checkCompatibleSupertypes(Check.java:2910)\n'
             '\tat java.base/java.lang.Iterable.forEach(Iterable.java:75)\n'
             '\tat jdk.compiler/com.sun.tools.javac.main.Main.compile(Main.java:317)\n',
             'An exception has occurred in the compiler (17.0.1). Please file a bug against the Java compiler.\n'
             'com.sun.tools.javac.util.ClientCodeException: java.lang.IllegalStateException\n'
             '\tat jdk.compiler/com.sun.tools.javac.api.ClientCodeWrapper.wrap(ClientCodeWrapper.java:130)\n'
             'Caused by: java.lang.IllegalStateException\n'
             '\tat jdk.compiler/com.sun.tools.javac.comp.Attr.attribTree(Attr.java:700)\n'],
    'kotlin': [CRASH['kotlin'],
               'exception: java.lang.IllegalStateException: Backend Internal error\n'
               'Caused by: org.jetbrains.kotlin.codegen.CompilationException: Back-end (JVM) Internal error\n'
               '\tat org.jetbrains.kotlin.codegen.ExpressionCodegen.genQualified(ExpressionCodegen.java:339)\n'],
    'groovy': [CRASH['groovy']],
    'scala': [CRASH['scala']],
}
GROOVY_STACKOVERFLOW = 'Exception in thread "main" java.lang.StackOverflowError\n'


def paths(lang, dirs, packages):
    return ['%s/src/%s/%s' % (d, p, FILENAME[lang]) for d in dirs for p in packages]


def shapes(max_files, max_err, max_warn, max_diags):
    """all assignments files -> (#errors, #warnings) within the bounds"""
    per = [(e, w) for e in range(max_err + 1) for w in range(max_warn + 1)]
    for n in range(1, max_files + 1):
        for combo in itertools.product(per, repeat=n):
            if sum(e + w for e, w in combo) <= max_diags:
                yield combo


def orders(diags):
    """all distinct permutations of the diagnostics list"""
    seen = set()
    for p in itertools.permutations(range(len(diags))):
        key = tuple(diags[i] for i in p)
        if key in seen:
            continue
        seen.add(key)
        yield [diags[i] for i in p]


def render(lang, files, order, variant, with_summary, with_notes, crash, end_newline=True):
    """order: list of (file index, kind); variant: message index policy
    -> (text, truth) truth = {'errors': {path: [diag texts]}, 'crash': bool, 'headers': {...}}"""
    nmsg = len(MESSAGES[lang])
    out = ''
    truth = {}
    headers = []
    nerr = sum(1 for _, k in order if k == 'error')
    nwarn = len(order) - nerr
    out += preamble(lang, nerr)
    line = 3
    ecount = 0
    for fi, kind in order:
        if kind == 'error':
            mi = variant if variant < nmsg else (ecount % nmsg)
            ecount += 1
        else:
            mi = 0
        text, head = diag_text(lang, files[fi], kind, mi, line)
        line += 2
        out += text
        if kind == 'error':
            truth.setdefault(files[fi], []).append(text)
        headers.append((files[fi], kind, head, text))
    if with_notes:
        out += NOTES[lang]
    if with_summary:
        out += summary(lang, nerr, nwarn)
    if crash == 'trace':
        out = out + CRASH[lang]
    elif crash == 'trace-first':
        out = CRASH[lang] + out
    elif crash == 'stackoverflow':
        out = GROOVY_STACKOVERFLOW + out
    elif crash and crash.startswith('trace:'):
        out = out + CRASH_VARIANTS[lang][int(crash[6:])]
    if not end_newline:
        out = out.rstrip('\n')
    return out, {'errors': truth, 'diags': headers, 'nerr': nerr}


def filter_patterns_for(lang, variant_token_index):
    """user patterns in the documented style: a regex covering a whole diagnostic header line
    (and, for block formats, the block) that mentions a message token"""
    first, _ = MESSAGES[lang][variant_token_index]
    token = re.escape(first[:24])
    if lang in ('java', 'kotlin'):
        return '.*%s.*\\n' % token
    if lang == 'groovy':
        return '.*%s[\\s\\S]*?\\n\\n' % token
    return '-- .*%s: .*\\n(?:[^-].*\\n)*' % re.escape(first)
