"""Text inventory scanners (C12): a small tokenizer + per-language declaration patterns, compared
with an inventory computed from the IR by an independent reflective walker.  Language mappings that
are by design (Java/Groovy: top-level declarations become static members of Main, FunctionN
interfaces are generated; Kotlin/Scala: fields are constructor parameters) are encoded here."""
import re
from collections import Counter

TOKEN = re.compile(r'''
    (?P<str>"(?:\\.|[^"\\])*")
  | (?P<chr>'(?:\\.|[^'\\])')
  | (?P<bq>`[^`]+`)
  | (?P<num>\d+(?:\.\d+)?[a-zA-Z]*)
  | (?P<id>[A-Za-z_][A-Za-z_0-9]*)
  | (?P<ws>\s+)
  | (?P<op>.)
''', re.X | re.S)


BOL = set()      # indexes (into the last tokenize() result) of tokens that start a line


def tokenize(text):
    out = []
    BOL.clear()
    bol = True
    for m in TOKEN.finditer(text):
        k = m.lastgroup
        if k == 'ws':
            if '\n' in m.group():
                bol = True
            continue
        v = m.group()
        if k == 'bq':
            k, v = 'id', v[1:-1]
        if bol:
            BOL.add(len(out))
            bol = False
        out.append((k, v))
    return out


PAIRS = {'(': ')', '[': ']', '{': '}'}


def balance(tokens):
    """-> None or a description of the first imbalance (strings and chars are single tokens)"""
    stack = []
    for k, v in tokens:
        if k != 'op':
            continue
        if v in PAIRS:
            stack.append(v)
        elif v in PAIRS.values():
            if not stack or PAIRS[stack.pop()] != v:
                return 'unmatched %r' % v
    if stack:
        return 'unclosed %r' % stack[-1]
    return None


def skip_angle(tokens, i, open_='<', close='>'):
    """tokens[i] == open_; return index after the matching close (or None)"""
    depth = 0
    j = i
    while j < len(tokens):
        k, v = tokens[j]
        if k == 'op' and v == open_:
            depth += 1
        elif k == 'op' and v == close:
            depth -= 1
            if depth == 0:
                return j + 1
        elif k == 'op' and v in '(){};=' and not (v == '=' and False):
            if v in '{};':
                return None
        j += 1
    return None


def skip_parens(tokens, i):
    depth = 0
    j = i
    while j < len(tokens):
        k, v = tokens[j]
        if k == 'op' and v == '(':
            depth += 1
        elif k == 'op' and v == ')':
            depth -= 1
            if depth == 0:
                return j + 1
        j += 1
    return None


MODIFIERS = {'public', 'private', 'protected', 'static', 'final', 'abstract', 'default', 'def', 'open', 'override'}


def group_names(tokens, i, open_, close):
    """tokens[i] == open_: names declared at depth 1 of the group (first identifier after the
    opening bracket or a depth-1 comma, skipping variance markers); -> (names, index after group)"""
    names = []
    depth = 0
    j = i
    expect = False
    while j < len(tokens):
        k, v = tokens[j]
        if k == 'op' and v == open_:
            depth += 1
            if depth == 1:
                expect = True
        elif k == 'op' and v == close:
            depth -= 1
            if depth == 0:
                return names, j + 1
        elif k == 'op' and v == ',' and depth == 1:
            expect = True
        elif k == 'op' and v in '{};':
            return names, None
        elif expect and depth == 1:
            if k == 'id' and v in ('in', 'out'):
                pass                      # variance marker
            elif k == 'id':
                names.append(v)
                expect = False
            elif k == 'op' and v in '+-':
                pass
            else:
                expect = False
        j += 1
    return names, None


def scan(lang, text, generic_classes):
    """-> dict of Counters: classes, var_typed, var_untyped, fun_typed, fun_untyped, new_inferred, strings"""
    t = tokenize(text)
    inv = {k: Counter() for k in ('classes', 'var_typed', 'var_untyped', 'fun_typed', 'fun_untyped',
                                  'new_inferred', 'new_explicit', 'strings', 'class_tparams', 'fun_tparams')}
    inv['balance'] = balance(t)
    n = len(t)
    TA_OPEN, TA_CLOSE = ('[', ']') if lang == 'scala' else ('<', '>')
    for i, (k, v) in enumerate(t):
        if lang in ('java', 'groovy') and k == 'op' and v == '<' and i > 0 and (i in BOL or t[i - 1] in (
                ('op', '{'), ('op', '}'), ('op', ';'))):
            names, _ = group_names(t, i, '<', '>')
            for nm in names:
                inv['fun_tparams'][nm] += 1
            continue
        if k == 'str':
            inv['strings'][v[1:-1]] += 1
            continue
        if k != 'id':
            continue
        nxt = t[i + 1] if i + 1 < n else ('', '')
        prev = t[i - 1] if i > 0 else ('', '')
        if v in ('class', 'interface', 'trait') and nxt[0] == 'id' and prev != ('op', '.') and prev != ('op', ':'):
            inv['classes'][nxt[1]] += 1
            if i + 2 < n and t[i + 2] == ('op', TA_OPEN):
                names, _ = group_names(t, i + 2, TA_OPEN, TA_CLOSE)
                for nm in names:
                    inv['class_tparams'][(nxt[1], nm)] += 1
            continue
        if lang in ('java', 'groovy') and v in MODIFIERS and nxt == ('op', '<'):
            names, _ = group_names(t, i + 1, '<', '>')
            for nm in names:
                inv['fun_tparams'][nm] += 1
            continue
        if lang in ('kotlin', 'scala') and v in ('val', 'var') and nxt[0] == 'id':
            after = t[i + 2] if i + 2 < n else ('', '')
            (inv['var_typed'] if after == ('op', ':') else inv['var_untyped'])[nxt[1]] += 1
            continue
        if lang == 'groovy' and v == 'def' and nxt[0] == 'id':
            after = t[i + 2] if i + 2 < n else ('', '')
            if after == ('op', '='):
                inv['var_untyped'][nxt[1]] += 1
            continue
        if lang == 'java' and v == 'var' and nxt[0] == 'id':
            inv['var_untyped'][nxt[1]] += 1
            continue
        if (lang == 'kotlin' and v == 'fun') or (lang == 'scala' and v == 'def'):
            j = i + 1
            if lang == 'kotlin' and j < n and t[j] == ('op', '<'):
                names, _ = group_names(t, j, '<', '>')
                for nm in names:
                    inv['fun_tparams'][nm] += 1
                j = skip_angle(t, j)
                if j is None:
                    continue
            if j >= n or t[j][0] != 'id':
                continue           # anonymous function
            name = t[j][1]
            j += 1
            if lang == 'scala' and j < n and t[j] == ('op', '['):
                names, _ = group_names(t, j, '[', ']')
                for nm in names:
                    inv['fun_tparams'][nm] += 1
                j = skip_angle(t, j, '[', ']')
                if j is None:
                    continue
            if j < n and t[j] == ('op', '('):
                j = skip_parens(t, j)
                if j is None:
                    continue
            typed = j < n and t[j] == ('op', ':')
            (inv['fun_typed'] if typed else inv['fun_untyped'])[name] += 1
            continue
        # constructor calls of generic classes
        if v in generic_classes:
            if lang in ('java', 'groovy', 'scala'):
                if prev != ('id', 'new'):
                    continue
            else:
                if prev in (('id', 'class'), ('id', 'interface'), ('op', '.'), ('id', 'fun')):
                    continue
            if nxt == ('op', TA_OPEN):
                j = skip_angle(t, i + 1, TA_OPEN, TA_CLOSE)
                if j is not None and j < n and t[j] == ('op', '('):
                    if j == i + 3:       # `<>`
                        inv['new_inferred'][v] += 1
                    else:
                        inv['new_explicit'][v] += 1
            elif nxt == ('op', '('):
                if lang in ('kotlin', 'scala') or lang in ('java', 'groovy'):
                    inv['new_inferred'][v] += 1
    return inv


def ir_inventory(program):
    """independent reflective walk over the program's declarations"""
    from src.ir import ast, types as tp
    from mc import irwalk
    inv = {k: Counter() for k in ('classes', 'var_typed', 'var_untyped', 'fun_typed', 'fun_untyped', 'fields',
                                  'new_inferred', 'new_explicit', 'strings', 'toplevel_vars', 'class_tparams',
                                  'fun_tparams', 'local_fun_def', 'local_fun_closure')}
    generic = set()
    void_name = type(program.bt_factory.get_void_type()).__name__
    not_local = set()
    decls = program.context.get_declarations(('global',), only_current=True)
    for d in decls.values():
        if isinstance(d, ast.VariableDeclaration):
            inv['toplevel_vars'][d.name] += 1
        elif isinstance(d, ast.FunctionDeclaration):
            not_local.add(id(d))
    for path, o in irwalk.walk(list(decls.values())):
        if isinstance(o, ast.ClassDeclaration):
            inv['classes'][o.name] += 1
            if o.type_parameters:
                generic.add(o.name)
            for tpar in o.type_parameters or []:
                inv['class_tparams'][(o.name, tpar.name)] += 1
            for f in o.fields:
                inv['fields'][f.name] += 1
            for f in o.functions:
                not_local.add(id(f))
        elif isinstance(o, ast.FunctionDeclaration):
            (inv['fun_typed'] if o.ret_type is not None else inv['fun_untyped'])[o.name] += 1
            for tpar in o.type_parameters or []:
                inv['fun_tparams'][tpar.name] += 1
            if id(o) not in not_local:
                # a function declared inside a function body (Groovy prints it as a closure variable: `def f = {`
                # when it carries no result type or returns void, `Closure<T> f = {` otherwise)
                untyped = o.ret_type is None or type(o.ret_type).__name__ == void_name
                inv['local_fun_def' if untyped else 'local_fun_closure'][o.name] += 1
        elif isinstance(o, ast.VariableDeclaration):
            (inv['var_typed'] if o.var_type is not None else inv['var_untyped'])[o.name] += 1
        elif isinstance(o, ast.New):
            ct = o.class_type
            if isinstance(ct, tp.ParameterizedType):
                if getattr(ct, 'can_infer_type_args', False):
                    inv['new_inferred'][ct.name] += 1
                else:
                    inv['new_explicit'][ct.name] += 1
        elif isinstance(o, ast.StringConstant):
            inv['strings'][o.literal] += 1
    inv['generic'] = generic
    return inv
