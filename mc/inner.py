"""Complete exploration of the choice tree of ONE call of a randomised helper: every answer at
every choice point, by DFS over choice prefixes.  Optionally, choice points asked from given
functions (nested instantiation detail) are explored with a deviation bound instead."""
import sys

from mc.choice import ChoiceSource, Horizon

LIMITED_DEFAULT = ('_compute_type_variable_assignments', '_get_type_arg_variance')


class FullChoice(ChoiceSource):
    def __init__(self, prefix, horizon=2000, want_sites=False):
        super().__init__('first', None, horizon=horizon)
        self.prefix = prefix
        self.want_sites = want_sites
        self.fn = []

    def _pick(self, n, base_idx=None, u=None):
        pos = len(self.ns)
        if pos >= self.horizon:
            raise Horizon(pos)
        c = self.prefix[pos] if pos < len(self.prefix) else 0
        if c >= n:
            raise RuntimeError('inner schedule does not fit menu')
        if self.want_sites:
            f = sys._getframe(2)
            while f is not None and f.f_code.co_filename.endswith('src/utils.py'):
                f = f.f_back
            self.fn.append(f.f_code.co_name if f is not None else '?')
        self.ns.append(n)
        self.base.append(0)
        self.ans.append(c)
        self.sites.append(None)
        return c


def explore_all(utils_mod, fn, cap=20000, limited=None, limited_bound=1):
    """yield (trace, outcome) for every leaf; outcome = ('ok', value) | ('exc', exception).
    limited: tuple of function names whose choice points get at most `limited_bound` non-default
    answers per execution (None = every point fully expanded).
    Sets explore_all.capped when the cap stopped the walk."""
    stack = [([], 0)]
    n = 0
    explore_all.capped = False
    R = utils_mod.random
    saved = R.r
    try:
        while stack:
            if n >= cap:
                explore_all.capped = True
                break
            pre, used = stack.pop()
            ch = FullChoice(pre, want_sites=limited is not None)
            R.r = ch
            try:
                out = ('ok', fn())
            except Horizon:
                out = ('horizon', None)
            except Exception as e:  # noqa
                out = ('exc', e)
            n += 1
            for i in range(len(pre), len(ch.ns)):
                lim = limited is not None and ch.fn[i] in limited
                if lim and used >= limited_bound:
                    continue
                for alt in range(1, ch.ns[i]):
                    stack.append((ch.ans[:i] + [alt], used + (1 if lim else 0)))
            yield list(ch.ans), out
    finally:
        R.r = saved
