"""Complete (not deviation-bounded) exploration of the choice tree of ONE call of a randomised
helper: every answer at every choice point, by DFS over choice prefixes."""
from mc.choice import ChoiceSource, Horizon


class FullChoice(ChoiceSource):
    def __init__(self, prefix, horizon=2000):
        super().__init__('first', None, horizon=horizon)
        self.prefix = prefix

    def _pick(self, n, base_idx=None, u=None):
        pos = len(self.ns)
        if pos >= self.horizon:
            raise Horizon(pos)
        c = self.prefix[pos] if pos < len(self.prefix) else 0
        if c >= n:
            raise RuntimeError('inner schedule does not fit menu')
        self.ns.append(n)
        self.base.append(0)
        self.ans.append(c)
        self.sites.append(None)
        return c


def explore_all(utils_mod, fn, cap=20000):
    """yield (trace, outcome) for every leaf; outcome = ('ok', value) | ('exc', exception).
    Sets explore_all.capped when the cap stopped the walk."""
    stack = [[]]
    n = 0
    explore_all.capped = False
    R = utils_mod.random
    saved = R.r
    try:
        while stack:
            if n >= cap:
                explore_all.capped = True
                break
            pre = stack.pop()
            ch = FullChoice(pre)
            R.r = ch
            try:
                out = ('ok', fn())
            except Horizon:
                out = ('horizon', None)
            except Exception as e:  # noqa
                out = ('exc', e)
            n += 1
            for i in range(len(pre), len(ch.ns)):
                for alt in range(1, ch.ns[i]):
                    stack.append(ch.ans[:i] + [alt])
            yield list(ch.ans), out
    finally:
        R.r = saved
