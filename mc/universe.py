"""SSE -- small-scope universes of class tables and types.

A *skeleton* is a list of class specs over reference terms (mc/ref/rsub.py).  realise() builds, from
the same skeleton, (a) the reference class table and (b) the real IR types through the real
constructors (SimpleClassifier, TypeParameter, TypeConstructor, TypeConstructor.new, WildCardType),
so that every enumerated type exists on both sides.
"""
import itertools

from mc.ref import rsub
from mc.ref.rsub import NOTHING

VARIANCES = ('inv', 'out', 'in')


def V(name, bound=None):
    return ('v', name, bound)


def C(name, *args):
    return ('c', name, tuple(args))


def T_(t):
    return ('t', t)


class Skeleton:
    """classes: list of (name, params, supers); params: (pname, variance, bound term|None);
    supers: terms over the class's own parameters.  Builtin roles are referred to by the names
    'Any', 'Number', 'Integer', 'String' and mapped to the language's factory on realisation."""

    def __init__(self, classes, label):
        self.classes = classes
        self.label = label

    def generic_names(self):
        return [n for n, ps, _ in self.classes if ps]

    def simple_names(self):
        return [n for n, ps, _ in self.classes if not ps]


BUILTIN_ROLES = ('Any', 'Number', 'Integer', 'String')


def _role_types(factory):
    return {'Any': factory.get_any_type(), 'Number': factory.get_number_type(),
            'Integer': factory.get_integer_type(), 'String': factory.get_string_type()}


def builtin_table_entries(tb, factory):
    """add the builtin roles to the reference table by READING the supertypes lists of the
    factory's objects (structure only; is_subtype is never called)"""
    roles = _role_types(factory)
    cls2role = {type(t): r for r, t in roles.items()}
    for r, t in roles.items():
        sup = []
        for s in t.supertypes:
            rr = cls2role.get(type(s))
            if rr is not None and rr != r:
                sup.append(C(rr))
        tb.add(r, (), sup, builtin=True)


def realise(skel, factory):
    """-> (table, conv) ; conv(term) -> IR type (memoised)"""
    from src.ir import types as tp
    tb = rsub.Table('Any')
    builtin_table_entries(tb, factory)
    roles = _role_types(factory)
    impl = {}
    VAR = {'inv': tp.Invariant, 'out': tp.Covariant, 'in': tp.Contravariant}

    def conv(t, tpmap):
        k = t[0]
        if k == 'nothing':
            return factory.get_nothing() if hasattr(factory, 'get_nothing') else tp.Nothing
        if k == 'v':
            return tpmap[t[1]]
        if k == 'c':
            if t[1] in roles:
                return roles[t[1]]
            c = impl[t[1]]
            if not t[2]:
                return c
            return c.new([conv_arg(a, tpmap) for a in t[2]])
        raise ValueError(t)

    def conv_arg(a, tpmap):
        if a[0] == '*':
            return tp.WildCardType()
        if a[0] == 't':
            return conv(a[1], tpmap)
        return tp.WildCardType(conv(a[1], tpmap), tp.Covariant if a[0] == 'out' else tp.Contravariant)

    for name, params, supers in skel.classes:
        if not params:
            impl[name] = tp.SimpleClassifier(name, [conv(s, {}) for s in supers])
            tb.add(name, (), supers)
        else:
            tpmap = {}
            ref_params = []
            for pn, var, b in params:
                tpmap[pn] = tp.TypeParameter(pn, VAR[var], conv(b, tpmap) if b is not None else None)
                ref_params.append((pn, var, b))
            impl[name] = tp.TypeConstructor(name, [tpmap[p[0]] for p in params],
                                            [conv(s, tpmap) for s in supers])
            tb.add(name, ref_params, supers)
    memo = {}

    def convert(t, tpmap=None):
        if tpmap:
            return conv(t, tpmap)
        r = memo.get(t)
        if r is None:
            r = memo[t] = conv(t, {})
        return r
    convert.impl = impl
    convert.roles = roles
    return tb, convert


# ---- well-formedness ------------------------------------------------------------------------------

def wf_type(tb, t):
    """arguments within bounds, projections compatible with the declared variance"""
    if t[0] != 'c' or not t[2]:
        return True
    info = tb.cls[t[1]]
    if len(info.params) != len(t[2]):
        return False
    m = {p[0]: (a[1] if a[0] != '*' else tb.top_term()) for p, a in zip(info.params, t[2])}
    for (pn, var, b), a in zip(info.params, t[2]):
        if a[0] == 'out' and var == 'in':
            return False
        if a[0] == 'in' and var == 'out':
            return False
        if a[0] != '*' and not wf_type(tb, a[1]):
            return False
        if b is not None and a[0] in ('t', 'out'):
            if not rsub.may(tb, a[1], rsub.subst(b, m)):
                return False
        if b is not None and a[0] == 'in':
            # `in L` needs some type between L and the bound
            if not rsub.may(tb, a[1], rsub.subst(b, m)):
                return False
    return True


def _occurs(t, name, pol, out):
    """collect polarities (+1, -1, 0=invariant) at which variable `name` occurs in t"""
    if t[0] == 'v':
        if t[1] == name:
            out.append(pol)
        return
    if t[0] != 'c':
        return


def occurrences(tb, t, name, pol=1):
    res = []

    def go(t, pol):
        if t[0] == 'v':
            if t[1] == name:
                res.append(pol)
            return
        if t[0] != 'c' or not t[2]:
            return
        info = tb.cls[t[1]]
        for (pn, var, b), a in zip(info.params, t[2]):
            if a[0] == '*':
                continue
            eff = var
            if a[0] == 'out':
                eff = 'out'
            elif a[0] == 'in':
                eff = 'in'
            if eff == 'inv':
                go(a[1], 0)
            elif eff == 'out':
                go(a[1], pol)
            else:
                go(a[1], -pol)
    go(t, pol)
    return res


def wf_table(tb, skel):
    """declared variance respected in supertypes, supertype arguments within bounds, bounds
    mention only earlier parameters"""
    for name, params, supers in skel.classes:
        seen = []
        for pn, var, b in params:
            if b is not None:
                for q in _vars_of(b):
                    if q not in seen:
                        return False
                if not wf_type(tb, b) and b[0] == 'c':
                    return False
            seen.append(pn)
        for s in supers:
            if not wf_type_open(tb, s, params):
                return False
            for pn, var, b in params:
                for pol in occurrences(tb, s, pn, 1):
                    if var == 'out' and pol != 1:
                        return False
                    if var == 'in' and pol != -1:
                        return False
    return True


def _vars_of(t):
    if t[0] == 'v':
        return [t[1]]
    if t[0] == 'c':
        out = []
        for a in t[2]:
            if a[0] != '*':
                out += _vars_of(a[1])
        return out
    return []


def wf_type_open(tb, t, params):
    """well-formedness of a type over the class's own parameters (variables carry their bounds)"""
    if t[0] != 'c' or not t[2]:
        return True
    info = tb.cls.get(t[1])
    if info is None or len(info.params) != len(t[2]):
        return False
    m = {p[0]: (a[1] if a[0] != '*' else tb.top_term()) for p, a in zip(info.params, t[2])}
    for (pn, var, b), a in zip(info.params, t[2]):
        if a[0] != '*' and not wf_type_open(tb, a[1], params):
            return False
        if b is not None and a[0] != '*':
            if not rsub.may(tb, a[1], rsub.subst(b, m)):
                return False
    return True


# ---- type enumeration -------------------------------------------------------------------------------

def enumerate_types(tb, skel, atoms, depth, projections=True, stars=True, generics=None, cap=None):
    """all well-formed ground types up to nesting `depth` over the atoms"""
    generics = generics if generics is not None else skel.generic_names()
    level = list(atoms)
    allt = list(atoms)
    seen = set(allt)
    for d in range(depth):
        new = []
        for g in generics:
            info = tb.cls[g]
            choices = []
            for (pn, var, b) in info.params:
                c = []
                for x in level:
                    c.append(('t', x))
                    if projections:
                        if var != 'in':
                            c.append(('out', x))
                        if var != 'out':
                            c.append(('in', x))
                if stars:
                    c.append(('*',))
                choices.append(c)
            for args in itertools.product(*choices):
                t = ('c', g, tuple(args))
                if t not in seen and wf_type(tb, t):
                    seen.add(t)
                    new.append(t)
                    if cap and len(seen) >= cap:
                        return allt + new
        allt += new
        level = list(allt)
    return allt


# ---- skeleton grammar ---------------------------------------------------------------------------------

def base_classes():
    return [('P', [], []), ('Q', [], [C('P')])]


def skeletons(tier):
    """yield well-formed skeletons (the filter is part of the reference; rejects are counted)"""
    out = []
    rejected = 0
    num = C('Number')
    # family 1: A<v1 T : b1>, G<T>, B<v2 T : b2> : A<sup>   (+ C : A<ground>)
    for v1 in VARIANCES:
        for b1 in (None, num, C('P')):
            for v2 in VARIANCES:
                for supk in ('T', 'Integer', 'P', 'G<T>', 'Q'):
                    for b2 in (None, num, C('P')):
                        if b2 is not None and supk not in ('T',):
                            continue
                        TB = V('T', b2)
                        sup = {'T': TB, 'Integer': C('Integer'), 'P': C('P'), 'Q': C('Q'),
                               'G<T>': C('G', T_(TB))}[supk]
                        classes = base_classes() + [
                            ('G', [('T', 'inv', None)], []),
                            ('A', [('T', v1, b1)], []),
                            ('B', [('T', v2, b2)], [C('A', T_(sup))]),
                        ]
                        ground = C('Integer') if b1 in (None, num) else C('Q')
                        classes.append(('D', [], [C('A', T_(ground))]))
                        out.append(Skeleton(classes, 'F1 A<%s T%s> B<%s T%s>:A<%s>' % (
                            v1, ':' + rsub.show(b1) if b1 else '', v2, ':' + rsub.show(b2) if b2 else '', supk)))
    # family 2: two parameters
    for v1, v2 in itertools.product(VARIANCES, repeat=2):
        for dep in (False, True):
            if dep and v1 != 'inv':
                continue
            T1 = V('T1', None)
            b2 = T1 if dep else None
            T2 = V('T2', b2)
            a_params = [('T1', v1, None), ('T2', v2, b2)]
            for bsup in ('T,T', 'T,Integer', 'swap', 'same', 'Number,Integer'):
                if bsup in ('swap', 'same'):
                    X1 = V('X1', None)
                    X2 = V('X2', X1 if (dep and bsup == 'same') else None)
                    bparams = [('X1', 'inv', None), ('X2', 'inv', X2[2])]
                    args = (T_(X2), T_(X1)) if bsup == 'swap' else (T_(X1), T_(X2))
                else:
                    X = V('X', None)
                    bparams = [('X', 'inv', None)]
                    args = {'T,T': (T_(X), T_(X)), 'T,Integer': (T_(X), T_(C('Integer'))),
                            'Number,Integer': (T_(num), T_(C('Integer')))}[bsup]
                classes = base_classes() + [('A', a_params, []), ('B', bparams, [C('A', *args)])]
                out.append(Skeleton(classes, 'F2 A<%s T1, %s T2%s> B:%s' % (v1, v2, ':T1' if dep else '', bsup)))
    # family 3: chain B : A<G<T>> with variant G, parameterized bound
    for vg in VARIANCES:
        for v1 in VARIANCES:
            TB = V('T', None)
            classes = base_classes() + [
                ('G', [('T', vg, None)], []),
                ('A', [('T', v1, None)], []),
                ('B', [('T', 'inv', None)], [C('A', T_(C('G', T_(TB))))]),
                ('E', [('T', 'inv', C('G', T_(num)))], [])]
            out.append(Skeleton(classes, 'F3 G<%s> A<%s> B<T>:A<G<T>> E<T:G<Number>>' % (vg, v1)))
    # family 5: a generic class below a simple class (bare constructors among the subtypes of an argument)
    for vg in VARIANCES:
        classes = base_classes() + [
            ('R', [('T', 'inv', None)], [C('Q')]),
            ('G', [('T', vg, None)], []),
            ('D', [], [C('G', T_(C('Integer')))]),
            ('D2', [], [C('D')])]
        out.append(Skeleton(classes, 'F5 R<T>:Q G<%s T> D:G<Integer> D2:D' % vg))
    # family 4: supertypes that carry use-site projections in nested positions
    for vg in ('inv', 'out'):
        TB = V('T', None)
        for label, sup in (('A<G<out T>>', C('A', T_(C('G', ('out', TB))))),
                           ('A<G<in G<T>>>', C('A', T_(C('G', ('in', C('G', T_(TB))))))),
                           ('A<G<out G<T>>>', C('A', T_(C('G', ('out', C('G', T_(TB)))))))):
            if vg == 'out' and 'in G' in label:
                continue
            classes = base_classes() + [
                ('G', [('T', vg, None)], []),
                ('A', [('T', 'inv', None)], []),
                ('B', [('T', 'inv', None)], [sup])]
            out.append(Skeleton(classes, 'F4 G<%s> A<inv> B<T>:%s' % (vg, label)))
    res = []
    for sk in out:
        tb = rsub.Table('Any')
        for r, sup in (('Any', []), ('Number', [C('Any')]), ('Integer', [C('Number')]), ('String', [C('Any')])):
            tb.add(r, (), sup, builtin=True)
        for name, params, supers in sk.classes:
            tb.add(name, params, supers)
        if wf_table(tb, sk):
            res.append(sk)
        else:
            rejected += 1
    if tier == 'quick':
        # a fixed, evenly spread subset (pure function of the grammar, not of VERIF_SEED): every third
        # table of the two big families, a third of F3, all of the small families F4/F5
        big = [s for s in res if s.label.startswith(('F1', 'F2'))]
        f3 = [s for s in res if s.label.startswith('F3')]
        small = [s for s in res if s.label.startswith(('F4', 'F5'))]
        res = big[::3] + f3[::3] + small
    return res, rejected


def quick_core(sks):
    """a small fixed selection for the expensive inner-tree checks: spread over F1/F2, one F3, one F4, all F5"""
    big = [s for s in sks if s.label.startswith(('F1', 'F2'))]
    f3 = [s for s in sks if s.label.startswith('F3')]
    f4 = [s for s in sks if s.label.startswith('F4')]
    f5 = [s for s in sks if s.label.startswith('F5')]
    return big[::8] + f3[-1:] + f4[:1] + f5
