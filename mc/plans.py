"""Thorough-tier exploration plans shared by the CTE checks (sized for ~10-25 minutes on 16 cores)."""
from mc.pipeline import Config

Z = (0, 0, 0, 0)
VECTORS4 = [Z, (1, 1, 1, 1), (1, 0, 0, 0), (0, 0, 1, 0)]
ALL16 = [(a, b, c, d) for a in (0, 1) for b in (0, 1) for c in (0, 1) for d in (0, 1)]


def thorough(langs, weight='light', vectors=None):
    """-> list of (configs, policies, bound, nslices).  weight: light | medium | heavy (cost of the oracle)"""
    vectors = vectors or VECTORS4
    pol4 = ['first', 'alt', ('prng', 1), ('prng', 2)]
    if weight == 'light':
        return [
            ([Config(l, s, 'S', o) for l in langs for s in vectors for o in ('asc', 'desc')], pol4, 1, 4),
            ([Config(l, Z, 'XS') for l in langs], [('prng', 1)], 2, 16),
            ([Config(l, Z, 'M') for l in langs], [('prng', 3), ('prng', 4), 'alt'], 1, 16),
            ([Config(l, Z, 'D') for l in langs], [('prng', 5)], 1, 32),
            ([Config(l, s, lim) for l in langs for s in ALL16 for lim in ('M', 'D')], [('prng', c) for c in range(1, 7)], 0, 1),
        ]
    if weight == 'medium':
        return [
            ([Config(l, s, 'S', o) for l in langs for s in (Z, (1, 1, 1, 1)) for o in ('asc', 'desc')], pol4, 1, 8),
            ([Config(l, Z, 'M') for l in langs], [('prng', 3), ('prng', 4)], 1, 16),
            ([Config(l, Z, 'D') for l in langs], [('prng', 5)], 1, 32),
            ([Config(l, s, lim) for l in langs for s in VECTORS4 for lim in ('M', 'D')], [('prng', c) for c in range(1, 13)], 0, 1),
        ]
    return [
        ([Config(l, s, 'S') for l in langs for s in (Z, (1, 1, 1, 1))], pol4, 1, 8),
        ([Config(l, Z, 'M') for l in langs], [('prng', 3)], 1, 16),
        ([Config(l, Z, lim) for l in langs for lim in ('M', 'D')], [('prng', c) for c in range(1, 41)], 0, 1),
    ]
