"""Client of the javac compile server (javasrv/CompileServer.java, built by setup.sh)."""
import os
import shutil
import subprocess
import tempfile

from mc import common


class Diag:
    __slots__ = ('kind', 'code', 'line', 'file', 'msg')

    def __init__(self, kind, code, line, file, msg):
        self.kind, self.code, self.line, self.file, self.msg = kind, code, line, file, msg

    def __repr__(self):
        return '%s %s %s:%s %s' % (self.kind, self.code, self.file, self.line, self.msg)


class JavacServer:
    def __init__(self):
        self.dir = tempfile.mkdtemp(prefix='verif_javac_', dir=common.scratch_root())
        cls = os.path.join(common.VERIF, 'build')
        if not os.path.exists(os.path.join(cls, 'CompileServer.class')):
            raise RuntimeError('build/CompileServer.class missing: run ./setup.sh')
        self.p = subprocess.Popen(['java', '-Xss16m', '-XX:+UseSerialGC', '-XX:TieredStopAtLevel=1', '-cp', cls,
                                   'CompileServer', self.dir],
                                  stdin=subprocess.PIPE, stdout=subprocess.PIPE, stderr=subprocess.DEVNULL,
                                  cwd=self.dir)  # javac drops javac.<date>.args files into its cwd when it crashes
        self.n = 0

    def close(self):
        try:
            self.p.stdin.write(b'QUIT\n')
            self.p.stdin.flush()
            self.p.wait(timeout=10)
        except Exception:  # noqa
            self.p.kill()
        shutil.rmtree(self.dir, ignore_errors=True)

    def write_program(self, text, package):
        """write one translated program as <dir>/tmpN/src/<package>/Main.java; returns path"""
        self.n += 1
        d = os.path.join(self.dir, 'b%d' % self.n, 'src', package)
        os.makedirs(d)
        path = os.path.join(d, 'Main.java')
        with open(path, 'w') as f:
            f.write(text)
        return path

    def new_batch_dir(self):
        self.n += 1
        d = os.path.join(self.dir, 'b%d' % self.n)
        os.makedirs(os.path.join(d, 'src'))
        return d

    def write_into(self, batch_dir, text, package):
        d = os.path.join(batch_dir, 'src', package)
        os.makedirs(d, exist_ok=True)
        path = os.path.join(d, 'Main.java')
        with open(path, 'w') as f:
            f.write(text)
        return path

    def remove(self, path_or_dir):
        top = path_or_dir
        while os.path.dirname(top) != self.dir and len(top) > len(self.dir):
            top = os.path.dirname(top)
        shutil.rmtree(top, ignore_errors=True)

    def compile(self, files, text=False):
        """-> (ok, [Diag], cli_text or None)"""
        req = ('T ' if text else 'S ') + ' '.join(files) + '\n'
        self.p.stdin.write(req.encode())
        self.p.stdin.flush()
        diags = []
        ok = None
        cli = None
        while True:
            line = self.p.stdout.readline()
            if not line:
                raise RuntimeError('compile server died')
            line = line.decode('utf-8', 'replace').rstrip('\n')
            if line == 'END':
                break
            if line.startswith('D '):
                head, _, msg = line.partition('\t')
                _, kind, code, ln, src = head.split(' ', 4)
                diags.append(Diag(kind, code, int(ln), src, msg))
            elif line.startswith('OK '):
                ok = line[3:] == 'true'
            elif line.startswith('TEXT '):
                n = int(line[5:])
                rows = [self.p.stdout.readline().decode('utf-8', 'replace').rstrip('\n') for _ in range(n)]
                cli = '\n'.join(rows)
        return ok, diags, cli


def set_package(text, package):
    """the translators print `package <name>;` as the first line"""
    first, _, rest = text.partition('\n')
    if not first.startswith('package '):
        return None
    return 'package %s;\n%s' % (package, rest)
