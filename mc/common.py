"""Shared plumbing: repo import, evidence files, findings, violation reporting.

Every check is `run(tier, seed) -> Result`.  The deciding step of every check is an exhaustive
enumeration; this module only carries the bookkeeping around it.
"""
import hashlib
import json
import os
import sys
import time

VERIF = os.path.dirname(os.path.dirname(os.path.abspath(__file__)))
REPO = os.environ.get('VERIF_REPO', '/repo')
EVIDENCE_DIR = os.path.join(VERIF, 'evidence')
REPLAY_DIR = os.path.join(VERIF, 'replays')
FINDINGS_FILE = os.path.join(VERIF, 'known_findings.json')

sys.dont_write_bytecode = True


def install_arena_cache():
    """Performance aid only (see native/arena_cache.c); silently skipped when not built."""
    import ctypes
    so = os.path.join(VERIF, 'build', 'libarena_cache.so')
    if os.path.exists(so) and not os.environ.get('VERIF_NO_ARENA_CACHE'):
        try:
            ctypes.PyDLL(so).ac_install()
            return True
        except OSError:
            return False
    return False


def import_repo():
    """Make /repo importable in place (no copy, no bytecode)."""
    if REPO not in sys.path:
        sys.path.insert(0, REPO)
    # src.args parses sys.argv at import: never let it see ours.
    # (modules that need src.args set sys.argv themselves)


def scratch_root():
    for cand in (os.environ.get('VERIF_TMP'), '/dev/shm', '/var/tmp'):
        if cand and os.path.isdir(cand) and os.access(cand, os.W_OK):
            return cand
    return '/var/tmp'


class Violation:
    """One definite violation.  Identity for the known-findings file is
    (property, rule, site, shape); `detail` is the replayable artefact."""

    def __init__(self, prop, rule, site, shape, detail):
        self.prop = prop
        self.rule = rule
        self.site = site
        self.shape = shape
        self.detail = detail

    def key(self):
        return (self.prop, self.rule, self.site, self.shape)

    def to_json(self):
        return {'property': self.prop, 'rule': self.rule, 'site': self.site,
                'shape': self.shape, 'detail': self.detail}


def load_findings():
    if not os.path.exists(FINDINGS_FILE):
        return {}, []
    with open(FINDINGS_FILE) as f:
        data = json.load(f)
    listed = {}
    for e in data.get('findings', []):
        listed[(e['property'], e['rule'], e['site'], e['shape'])] = e
    return listed, data.get('fixed', [])


def _jsonable(x):
    if isinstance(x, (str, int, float, bool)) or x is None:
        return x
    if isinstance(x, dict):
        return {str(k): _jsonable(v) for k, v in x.items()}
    if isinstance(x, (list, tuple)):
        return [_jsonable(v) for v in x]
    if isinstance(x, (set, frozenset)):
        return sorted((_jsonable(v) for v in x), key=repr)
    return repr(x)


class Result:
    def __init__(self, prop, tier, seed, level='model_checking'):
        self.prop = prop
        self.tier = tier
        self.seed = seed
        self.level = level
        self.coverage = {}
        self.assumptions = []
        self.violations = []      # list[Violation]
        self.harness_errors = []  # nondeterminism etc. -> exit 3
        self.t0 = time.time()

    def add(self, v):
        self.violations.append(v)

    def finish(self):
        """Classify, print, write artefacts + evidence; return exit code."""
        listed, _fixed = load_findings()
        groups = {}
        for v in self.violations:
            groups.setdefault(v.key(), []).append(v)
        unlisted = 0
        known = 0
        for key in sorted(groups, key=repr):
            vs = groups[key]
            n_inst = 0
            for v in vs:
                d = v.detail if isinstance(v.detail, dict) else {}
                n_inst += int(d.get('instances', d.get('failing_cases_in_run', 1)) or 1)
            if key in listed:
                known += 1
                print('KNOWN-FINDING: property=%s %s at %s: %s (%d instance%s)' % (
                    key[0], key[1], key[2], key[3], n_inst, '' if n_inst == 1 else 's'))
            else:
                unlisted += 1
                path = write_replay(vs[0], len(vs))
                print('VIOLATION property=%s replay=%s' % (key[0], path))
                print('  rule=%s site=%s shape=%s instances=%d' % (key[1], key[2], key[3], len(vs)))
        for h in self.harness_errors:
            print('HARNESS-ERROR: %s' % (h,))
        cov = dict(self.coverage)
        cov.setdefault('known_finding_groups', known)
        cov.setdefault('violation_groups', unlisted)
        ev = {
            'property_id': self.prop,
            'tier': self.tier,
            'seed': self.seed,
            'level': self.level,
            'coverage': _jsonable(cov),
            'assumptions': self.assumptions,
            'wall_s': round(time.time() - self.t0, 2),
            'violations': unlisted,
        }
        os.makedirs(EVIDENCE_DIR, exist_ok=True)
        tmp = os.path.join(EVIDENCE_DIR, '.%s.json.tmp' % self.prop)
        with open(tmp, 'w') as f:
            json.dump(ev, f, indent=1, sort_keys=True)
            f.write('\n')
        os.replace(tmp, os.path.join(EVIDENCE_DIR, '%s.json' % self.prop))
        if self.harness_errors:
            return 3
        return 1 if unlisted else 0


def write_replay(v, instances=1):
    d = os.path.join(REPLAY_DIR, v.prop)
    os.makedirs(d, exist_ok=True)
    body = _jsonable(v.to_json())
    body['instances_in_run'] = instances
    txt = json.dumps(body, indent=1, sort_keys=True)
    h = hashlib.sha1(repr(v.key()).encode()).hexdigest()[:12]
    path = os.path.join(d, '%s.json' % h)
    with open(path, 'w') as f:
        f.write(txt + '\n')
    return path


def rotate(seq, seed):
    """VERIF_SEED may only change the ORDER of work, never the set."""
    seq = list(seq)
    if not seq:
        return seq
    k = seed % len(seq)
    return seq[k:] + seq[:k]
