"""Canonical structural snapshots and diffs of IR object graphs.

flat(obj) -> {path: atom}: every reachable attribute, by reflection over __dict__ (so a new
field added to /repo is observed without touching the harness).  Non-type nodes are
memoised by identity (second occurrence = ('REF', first-path)), types are expanded by value
at every occurrence (they are values; sharing of type objects is judged separately by C07).
The harness attribute `_vh` (per-execution hash counter) is ignored.
"""
import hashlib
import sys
from collections import OrderedDict

_ATOMS = (str, int, float, bool, type(None), bytes)
IGNORED_ATTRS = {'_vh', '_vsite'}


def _is_type(obj):
    from src.ir import types as tp
    return isinstance(obj, (tp.Type, tp.Variance))


def flat(obj, ignore=frozenset(), types_by_value=True):
    out = {}
    memo = {}
    stack_ids = set()

    def go(o, path):
        if isinstance(o, _ATOMS):
            out[path] = o
            return
        if isinstance(o, (list, tuple)):
            out[path] = ('SEQ', type(o).__name__, len(o))
            for i, x in enumerate(o):
                go(x, path + (i,))
            return
        if isinstance(o, (set, frozenset)):
            items = []
            for x in o:
                sub = flat(x, ignore, types_by_value)
                items.append(repr(sorted(sub.items(), key=repr)))
            out[path] = ('SET', tuple(sorted(items)))
            return
        if isinstance(o, dict):
            out[path] = ('MAP', type(o).__name__, len(o))
            for i, (k, v) in enumerate(o.items()):
                if isinstance(k, _ATOMS) or (isinstance(k, tuple) and all(isinstance(e, _ATOMS) for e in k)):
                    kp = ('K', k)
                    out[path + (('KEYAT', i),)] = k
                else:
                    kp = ('KO', i)
                    go(k, path + (('KEYOBJ', i),))
                go(v, path + (kp,))
            return
        if isinstance(o, type):
            out[path] = ('CLASS', o.__name__)
            return
        if callable(o) and not hasattr(o, '__dict__'):
            out[path] = ('CALLABLE', getattr(o, '__name__', '?'))
            return
        oid = id(o)
        is_t = types_by_value and _is_type(o)
        if not is_t:
            if oid in memo:
                out[path] = ('REF', memo[oid])
                return
            memo[oid] = path
        else:
            if oid in stack_ids:
                out[path] = ('CYCLE',)
                return
            stack_ids.add(oid)
        d = getattr(o, '__dict__', None)
        out[path] = ('OBJ', type(o).__name__)
        if d is not None:
            for k in sorted(d):
                if k in IGNORED_ATTRS or k in ignore:
                    continue
                go(d[k], path + (k,))
        elif hasattr(o, '_fields'):
            for k in o._fields:
                go(getattr(o, k), path + (k,))
        else:
            out[path] = ('OPAQUE', type(o).__name__, repr(o))
        if is_t:
            stack_ids.discard(oid)

    old = sys.getrecursionlimit()
    sys.setrecursionlimit(max(old, 20000))
    try:
        go(obj, ())
    finally:
        sys.setrecursionlimit(old)
    return out


def digest(obj, ignore=frozenset()):
    f = flat(obj, ignore)
    h = hashlib.md5()
    for k in sorted(f, key=repr):
        h.update(repr((k, f[k])).encode())
    return h.hexdigest()


def diff(fa, fb):
    """-> list of (path, a, b) for paths whose atoms differ (missing = '<absent>')."""
    out = []
    for k in fa:
        if k not in fb:
            out.append((k, fa[k], '<absent>'))
        elif fa[k] != fb[k]:
            out.append((k, fa[k], fb[k]))
    for k in fb:
        if k not in fa:
            out.append((k, '<absent>', fb[k]))
    return out


def roots(diffs):
    """Minimal set of paths that cover all differing paths (prefix-closed roots)."""
    ps = sorted((d[0] for d in diffs), key=lambda p: (len(p), repr(p)))
    rs = []
    for p in ps:
        if not any(p[:len(r)] == r for r in rs):
            rs.append(p)
    return rs
