"""C06 -- the subtyping judgement is sound, and exact on concrete class types.

Deciding step: SSE (mc/universe.py) -- every class table of a skeleton grammar x every ordered
pair of well-formed types up to a nesting depth, for each language's builtin factory; the real
Type.is_subtype / is_assignable answer is compared with the declarative relation R-SUB
(mc/ref/rsub.py) in its two readings.  Rules: soundness (impl => may) on everything incl. type
variables and star projections; exactness (impl == must) on the universe the property names and
only where must == may; reflexivity; transitivity on all triples of shallow types; bottom below
everything; is_assignable contains is_subtype.
"""
import itertools
import multiprocessing as mp

from mc import common, universe
from mc.common import Result, Violation
from mc.ref import rsub
from mc.ref.rsub import NOTHING

PROP = 'C06'
LANGS = ('kotlin', 'java', 'groovy', 'scala')


def variance_sig(tb, t):
    if t[0] != 'c' or not t[2]:
        return ''
    return '[' + ','.join(p[1] + (':b' if p[2] is not None else '') for p in tb.cls[t[1]].params) + ']'


def _kind(a):
    return a[0] if a[0] != 't' else 'plain'


def _flows(tb, term, pn, depth=0):
    """how variable pn occurs in a supertype term: list of ('direct', declared variance of the
    receiving parameter, wrapper kind) / ('nested',)"""
    out = []
    if term[0] != 'c' or not term[2]:
        return out
    info = tb.cls[term[1]]
    for (qn, var, b), a in zip(info.params, term[2]):
        if a[0] == '*':
            continue
        if a[1][0] == 'v' and a[1][1] == pn:
            out.append(('direct', var, _kind(a)) if depth == 0 else ('nested',))
        else:
            sub = _flows(tb, a[1], pn, depth + 1)
            out += [('nested',)] * len(sub)
    return out


def pair_shape(tb, S, T):
    """root-cause oriented shape of a (S, T) pair (identity of a finding)"""
    if S[0] != 'c' or T[0] != 'c':
        return 'with type variable: S=%s T=%s' % (rsub.abstract(S), rsub.abstract(T))
    if S[1] == T[1]:
        info = tb.cls[S[1]]
        parts = []
        for (pn, var, b), a, bb in zip(info.params, S[2], T[2]):
            if a == bb:
                continue
            parts.append('%s%s: %s -> %s%s' % (var, ':bounded' if b is not None else '', _kind(a), _kind(bb),
                                              '' if (a[0] == '*' or bb[0] == '*' or a[1] == bb[1]) else
                                              ' (different argument, depth %d/%d)' % (rsub.depth_of(a[1]), rsub.depth_of(bb[1]))))
        return 'same constructor; differing positions: ' + '; '.join(parts)
    info = tb.cls[S[1]]
    flows = []
    for (pn, var, b), a in zip(info.params, S[2]):
        if a[0] == 't':
            continue
        fl = []
        for s in info.supers:
            fl += _flows(tb, s, pn)
        for f in sorted(set(fl)) or [('unused',)]:
            if f[0] == 'direct':
                flows.append('%s-projected argument substituted directly into a declared-%s supertype parameter%s' % (
                    _kind(a), f[1], '' if f[2] == 'plain' else ' under ' + f[2]))
            elif f[0] == 'nested':
                flows.append('%s-projected argument substituted under a nested constructor of the supertype' % _kind(a))
            else:
                flows.append('%s-projected argument not used by the supertype' % _kind(a))
    if not flows:
        nested = any(a[0] != '*' and (rsub.has_star(a[1]) or _has_proj(a[1])) for a in S[2])
        return 'nominal, no top-level projection%s: S=%s T=%s' % (' (projection nested in an argument)' if nested else '',
                                                                  rsub.abstract(S), rsub.abstract(T))
    return 'nominal; ' + '; '.join(sorted(set(flows)))


def _has_proj(t):
    return t[0] == 'c' and any(a[0] in ('in', 'out', '*') or (a[0] == 't' and _has_proj(a[1])) for a in t[2])


def check_table(sk, lang, tier, found, stats):
    from src.ir import BUILTIN_FACTORIES
    factory = BUILTIN_FACTORIES[lang]
    tb, conv = universe.realise(sk, factory)
    atoms_all = [universe.C('Number'), universe.C('Integer'), universe.C('String'),
                 universe.C('P'), universe.C('Q')]
    if any(n == 'D' for n, _, _ in sk.classes):
        atoms_all.append(universe.C('D'))
    U1 = universe.enumerate_types(tb, sk, atoms_all, 1)
    if tier == 'quick':
        red = [universe.C('Number'), universe.C('Integer'), universe.C('P')]
        U2 = universe.enumerate_types(tb, sk, red, 2, stars=False, cap=260)
    else:
        red = [universe.C('Number'), universe.C('Integer'), universe.C('P'), universe.C('Q')]
        U2 = universe.enumerate_types(tb, sk, red, 2, stars=True, cap=700)
    U = list(dict.fromkeys(U1 + U2))
    # type variables in scope (soundness only): parameters of the generic classes
    VARS = []
    vmap = {}
    for name, params, _ in sk.classes:
        for pn, var, b in params:
            v = ('v', pn, b)
            if v not in vmap:
                vmap[v] = None
    impl = {}
    for t in U:
        try:
            impl[t] = conv(t)
        except Exception as e:  # noqa
            stats['build_errors'] = stats.get('build_errors', 0) + 1
            rec(found, 'constructor-raises', 'src/ir/types.py:new', type(e).__name__, sk, lang, t, None, str(e))
    # variables: take the real TypeParameter objects out of the realised constructors
    for name, c in conv.impl.items():
        for tpar in getattr(c, 'type_parameters', []) or []:
            bound_term = None
            for n2, params, _ in sk.classes:
                if n2 == name:
                    for pn, var, b in params:
                        if pn == tpar.name:
                            bound_term = b
            v = ('v', tpar.name, bound_term)
            if v not in impl:
                impl[v] = tpar
                VARS.append(v)
    nothing_impl = factory.get_nothing() if lang in ('kotlin', 'scala') else None
    from src.ir import types as tp
    bottoms = [tp.Nothing] + ([nothing_impl] if nothing_impl is not None else [])
    ground = [t for t in U if t in impl]
    ans = {}
    unsound_pairs = set()
    for S in ground + VARS:
        iS = impl[S]
        for T in ground + VARS:
            if S[0] == 'v' and T[0] == 'v':
                continue
            iT = impl[T]
            try:
                r = bool(iS.is_subtype(iT))
            except Exception as e:  # noqa
                if S[0] == 'v':
                    continue      # TypeParameter.is_subtype is documented to raise for abstract types
                rec(found, 'is_subtype-raises', 'src/ir/types.py:is_subtype', type(e).__name__, sk, lang, S, T, str(e))
                continue
            stats['pairs'] = stats.get('pairs', 0) + 1
            ans[(S, T)] = r
            if r and not rsub.may(tb, S, T):
                unsound_pairs.add((S, T))
    stats['unsound'] = stats.get('unsound', 0) + len(unsound_pairs)

    def subterms(t):
        out = []
        if t[0] == 'c':
            for a in t[2]:
                if a[0] != '*':
                    out.append(a[1])
                    out += subterms(a[1])
        return out

    for (S, T) in sorted(unsound_pairs, key=lambda p: (rsub.depth_of(p[0]) + rsub.depth_of(p[1]), repr(p))):
        # an unsound answer on an inner pair of arguments propagates outwards: report the inner one only
        derived = False
        for x in subterms(S):
            for y in subterms(T):
                if (x, y) in unsound_pairs or (y, x) in unsound_pairs:
                    derived = True
                    break
            if derived:
                break
        if derived:
            stats['unsound_derived'] = stats.get('unsound_derived', 0) + 1
            continue
        rec(found, 'unsound', 'src/ir/types.py:is_subtype', pair_shape(tb, S, T), sk, lang, S, T,
            'answered True; not derivable even in the liberal reading')
    for (S, T), r in ans.items():
        restricted = (S[0] == 'c' and T[0] == 'c' and not rsub.has_star(S) and not rsub.has_star(T))
        if restricted:
            mayv = rsub.may(tb, S, T)
            mustv = rsub.must(tb, S, T)
            if mustv != mayv:
                stats['excluded_must_ne_may'] = stats.get('excluded_must_ne_may', 0) + 1
            else:
                stats['exactness_pairs'] = stats.get('exactness_pairs', 0) + 1
                if mustv and not r:
                    rec(found, 'incomplete', 'src/ir/types.py:is_subtype', pair_shape(tb, S, T), sk, lang, S, T,
                        'answered False; derivable in the literal reading')
        if r and S[0] == 'c':
            iS, iT = impl[S], impl[T]
            try:
                if not iS.is_assignable(iT):
                    rec(found, 'assignable-excludes-subtype', 'src/ir/types.py:is_assignable',
                        pair_shape(tb, S, T), sk, lang, S, T, 'is_subtype True but is_assignable False')
            except Exception as e:  # noqa
                rec(found, 'is_assignable-raises', 'src/ir/types.py:is_assignable', type(e).__name__, sk, lang, S, T, str(e))
    for T in ground:
        if not ans.get((T, T), False) and not rsub.has_star(T):
            rec(found, 'not-reflexive', 'src/ir/types.py:is_subtype', 'T=%s%s' % (rsub.abstract(T), variance_sig(tb, T)),
                sk, lang, T, T, 'T <= T answered False')
        for b in bottoms:
            try:
                if not b.is_subtype(impl[T]):
                    rec(found, 'bottom-not-below', 'src/ir/types.py:NothingType', rsub.abstract(T), sk, lang, NOTHING, T, '')
            except Exception as e:  # noqa
                rec(found, 'bottom-raises', 'src/ir/types.py:NothingType', type(e).__name__, sk, lang, NOTHING, T, str(e))
        stats['bottom_checks'] = stats.get('bottom_checks', 0) + len(bottoms)
    # transitivity over shallow star-free types
    shallow = [t for t in U1 if t in impl and not rsub.has_star(t)]
    for a in shallow:
        for b in shallow:
            if not ans.get((a, b)) or not rsub.may(tb, a, b):
                continue      # an unsound link is reported as such, not again as non-transitivity
            for c in shallow:
                if ans.get((b, c)) and not ans.get((a, c)) and rsub.may(tb, b, c):
                    rec(found, 'not-transitive', 'src/ir/types.py:is_subtype',
                        '%s <= %s <= %s' % (rsub.abstract(a), rsub.abstract(b), rsub.abstract(c)), sk, lang, a, c,
                        'via ' + rsub.show(b))
    stats['transitivity_triples'] = stats.get('transitivity_triples', 0) + len(shallow) ** 3
    stats['types'] = stats.get('types', 0) + len(ground) + len(VARS)


# Ground truth for the built-in (boxed) types of each language, from the language specifications --
# NOT read from /repo (the class tables above take the builtin edges from the objects' supertypes
# lists, which would make a corrupted builtin hierarchy invisible).  Scala's Number is
# java.lang.Number: the numeric value types are not below it.
_NUM = ['Byte', 'Short', 'Long', 'Float', 'Double']
BUILTIN_TRUTH = {
    'kotlin': {'top': 'Any', 'below_number': ['Int'] + _NUM, 'number': 'Number',
               'other': ['Boolean', 'Char', 'String', 'Unit']},
    'java': {'top': 'Object', 'below_number': ['Integer'] + _NUM, 'number': 'Number',
             'other': ['Boolean', 'Character', 'String', 'void']},
    'groovy': {'top': 'Object', 'below_number': ['Integer'] + _NUM + ['BigDecimal', 'BigInteger'], 'number': 'Number',
               'other': ['Boolean', 'Character', 'String', 'void']},
    'scala': {'top': 'Any', 'below_number': [], 'number': 'Number',
              'other': ['Int'] + _NUM + ['Boolean', 'Char', 'String', 'Unit']},
}


def check_builtins(lang, found, stats):
    from src.ir import BUILTIN_FACTORIES
    f = BUILTIN_FACTORIES[lang]
    truth = BUILTIN_TRUTH[lang]
    known = set([truth['top'], truth['number']] + truth['below_number'] + truth['other'])
    ts = []
    for t in list(f.get_non_nothing_types()) + [f.get_void_type()]:
        if t.is_type_constructor() or getattr(t, 'primitive', False):
            continue
        if t.name in known and t.name not in [x.name for x in ts]:
            ts.append(t)

    def expected(s, t):
        if s == t or t == truth['top']:
            return True
        return t == truth['number'] and s in truth['below_number']
    sk = universe.Skeleton([], 'builtin types of ' + lang)
    for a in ts:
        for b in ts:
            stats['builtin_pairs'] = stats.get('builtin_pairs', 0) + 1
            got = bool(a.is_subtype(b))
            if got != expected(a.name, b.name):
                rec(found, 'builtin-hierarchy', 'src/ir/%s_types.py' % lang,
                    '%s <= %s answered %s' % (a.name, b.name, got), sk, lang, ('c', a.name, ()), ('c', b.name, ()),
                    'language specification says %s' % expected(a.name, b.name))
    missing = known - {t.name for t in ts}
    if missing:
        rec(found, 'builtin-hierarchy', 'src/ir/%s_types.py' % lang, 'builtin types missing: %s' % sorted(missing),
            sk, lang, ('c', '?', ()), None, '')


def rec(found, rule, site, shape, sk, lang, S, T, note):
    key = (rule, site, shape)
    size = (len(rsub.show(S)) + (len(rsub.show(T)) if T is not None else 0))
    e = found.get(key)
    if e is None:
        found[key] = [1, size, {'table': sk.label, 'language': lang, 'S': rsub.show(S),
                                'T': rsub.show(T) if T is not None else None, 'note': note,
                                'classes': [[n, [[p[0], p[1], rsub.show(p[2])] for p in ps], [rsub.show(s) for s in su]]
                                            for n, ps, su in sk.classes]}]
    else:
        e[0] += 1
        if size < e[1]:
            e[1] = size
            e[2] = {'table': sk.label, 'language': lang, 'S': rsub.show(S), 'T': rsub.show(T) if T is not None else None,
                    'note': note,
                    'classes': [[n, [[p[0], p[1], rsub.show(p[2])] for p in ps], [rsub.show(s) for s in su]]
                                for n, ps, su in sk.classes]}


def _work(arg):
    idxs, lang, tier = arg
    common.import_repo()
    import src.ir.ast  # noqa
    sks, _ = universe.skeletons(tier)
    found, stats = {}, {}
    if idxs and idxs[0] == 0:
        for l in LANGS:
            check_builtins(l, found, stats)
    for i in idxs:
        check_table(sks[i], lang, tier, found, stats)
        stats['tables'] = stats.get('tables', 0) + 1
    return found, stats


def run(tier, seed, jobs):
    res = Result(PROP, tier, seed, level='exploration')
    sks, rejected = universe.skeletons(tier)
    langs = LANGS if tier == 'thorough' else ('kotlin', 'java')
    tasks = []
    n = len(sks)
    step = max(1, n // (jobs * 2))
    for lang in langs:
        for i in range(0, n, step):
            tasks.append((list(range(i, min(n, i + step))), lang, tier))
    tasks = common.rotate(tasks, seed)
    found, stats = {}, {}
    with mp.get_context('fork').Pool(jobs) as pool:
        for f, st in pool.imap_unordered(_work, tasks):
            for k, v in st.items():
                stats[k] = stats.get(k, 0) + v
            for k, e in f.items():
                if k not in found:
                    found[k] = e
                else:
                    found[k][0] += e[0]
                    if e[1] < found[k][1]:
                        found[k][1], found[k][2] = e[1], e[2]
    for (rule, site, shape), (cnt, _, det) in sorted(found.items()):
        det = dict(det)
        det['instances'] = cnt
        res.add(Violation(PROP, rule, site, shape, det))
    res.coverage = {
        'evaluations': stats.get('pairs', 0), 'distinct_nontrivial': stats.get('exactness_pairs', 0),
        'rule': 'all ordered pairs of well-formed types (depth 1 over all atoms incl. star projections, depth 2 over a '
                'reduced atom set) for every well-formed class table of the skeleton grammar and each builtin factory; '
                'non-trivial = pairs inside the universe on which exactness is judged (class types, no stars, must == may)',
        'tables': stats.get('tables', 0), 'tables_rejected_by_wellformedness': rejected, 'languages': list(langs),
        'exhaustive': True, 'stats': stats,
        'samples': [{'table': sks[0].label, 'S': 'B<in Number>', 'T': 'A<Number>'}],
    }
    res.assumptions = ['R-SUB (mc/ref/rsub.py) is the declarative relation; conflicting use-site projections are outside the universe',
                       'exactness is judged only where the literal and the liberal reading agree']
    return res


def replay(path):
    import json
    common.import_repo()
    import src.ir.ast  # noqa
    from src.ir import BUILTIN_FACTORIES
    d = json.load(open(path))
    det = d['detail']
    for tier in ('thorough', 'quick'):
        sks, _ = universe.skeletons(tier)
        for sk in sks:
            if sk.label == det['table']:
                found, stats = {}, {}
                check_table(sk, det['language'], 'quick', found, stats)
                hit = [k for k in found if k[0] == d['rule'] and k[2] == d['shape']]
                print('REPLAY', det['table'], det['language'], 'reproduced' if hit else 'not reproduced',
                      found.get(hit[0])[2] if hit else '')
                return 1 if hit else 0
    print('REPLAY table not found')
    return 3
