"""C10 -- type unification returns a unifier or nothing.

Deciding step: SSE class tables x every (target, pattern) pair: targets = all well-formed ground
types to depth 1 (all projections, stars) plus depth 2 over a reduced atom set; patterns = types
over fresh type variables (plain, bounded, repeated, projected, nested) for every generic class of
the table, and the bare variable; both matching modes.  unify_types draws no random numbers, so
one call per pair is the complete behaviour.  Oracle: substitute the result back (reference
substitution on terms) and compare with the target / its reference supertypes; bounds by R-SUB.
"""
import itertools
import multiprocessing as mp

from mc import common, universe
from mc.common import Result, Violation
from mc.ref import rsub, conv as rconv

PROP = 'C10'


def patterns_for(tb, sk):
    """-> list of (label, pattern term over variables X, Y [, bound role])"""
    out = []
    num = universe.C('Number')
    bounds = [(None, ''), (num, ':Number')]
    # a bound that is itself parameterized over another BOUNDED variable (the generator draws bounds from the
    # types in scope, earlier type parameters included): X : G<V>, V : Number -- one per declared variance
    seen_var = set()
    for g in sk.generic_names():
        ps = tb.cls[g].params
        if len(ps) == 1 and ps[0][1] not in seen_var and ps[0][2] is None:
            seen_var.add(ps[0][1])
            bounds.append((('c', g, (('t', ('v', 'V', num)),)), ':%s<V:Number>' % g))
    for bound, bl in bounds:
        X = ('v', 'X', bound)
        Y = ('v', 'Y', None)
        out.append(('X' + bl, X))
        for name in sk.generic_names():
            info = tb.cls[name]
            n = len(info.params)
            if n == 1:
                cands = [('%s<X%s>' % (name, bl), (('t', X),)), ('%s<out X%s>' % (name, bl), (('out', X),)),
                         ('%s<in X%s>' % (name, bl), (('in', X),))]
                for g in sk.generic_names():
                    if len(tb.cls[g].params) == 1 and g != name:
                        cands.append(('%s<%s<X%s>>' % (name, g, bl), (('t', ('c', g, (('t', X),))),)))
            else:
                cands = [('%s<X%s, Y>' % (name, bl), (('t', X), ('t', Y))), ('%s<X%s, X>' % (name, bl), (('t', X), ('t', X))),
                         ('%s<X%s, Integer>' % (name, bl), (('t', X), ('t', universe.C('Integer')))),
                         ('%s<Integer, X%s>' % (name, bl), (('t', universe.C('Integer')), ('t', X))),
                         ('%s<out X%s, Y>' % (name, bl), (('out', X), ('t', Y)))]
            for label, args in cands:
                out.append((label, ('c', name, args)))
    return out


def open_vars(t):
    if t[0] == 'v':
        return ([] if t[2] is None else open_vars(t[2])) + [t]      # variables of the bound first
    if t[0] == 'c':
        o = []
        for a in t[2]:
            if a[0] != '*':
                o += open_vars(a[1])
        return o
    return []


def exist_bound(tb, b, m=None):
    """A bound that mentions other variables, read existentially (liberal): the variables sigma binds are
    replaced by their values, every remaining one by the projection that admits all of its instances
    (`out B` at an invariant/covariant position, `*` at a contravariant one or when unbounded).
    -> ground term, or None when nothing can be demanded"""
    if b is None:
        return None
    if m:
        b = subst_args(b, m)
        if b is None:
            return None
    return _exist(tb, b)


def _has_vars(t):
    return t[0] == 'v' or (t[0] == 'c' and any(a[0] != '*' and _has_vars(a[1]) for a in t[2]))


def _exist(tb, t):
    if t[0] == 'v':
        return _exist(tb, t[2]) if t[2] is not None else None
    if t[0] != 'c' or not t[2] or not _has_vars(t):
        return t
    info = tb.cls[t[1]]
    args = []
    for a, p in zip(t[2], info.params):
        if a[0] == '*' or not _has_vars(a[1]):
            args.append(a)
            continue
        inner = _exist(tb, a[1])
        if inner is None or a[0] == 'in' or (a[0] == 't' and p[1] == 'in'):
            args.append(('*',))
        else:
            args.append(('out', inner))
    return ('c', t[1], tuple(args))


def matches(tb, target, pat, m=None):
    """target == pat up to the variables pat still contains; at such a position the target's
    component must satisfy the variable's bound.  -> (ok, reason)"""
    if pat[0] == 'v':
        b = exist_bound(tb, pat[2], m)
        if b is not None and target[0] in ('c', 'nothing') and not rsub.may(tb, target, b):
            return False, 'component %s at open variable %s violates its bound' % (rsub.show(target), pat[1])
        return True, ''
    if pat[0] != target[0]:
        return False, 'shape differs'
    if pat[0] == 'c':
        if pat[1] != target[1] or len(pat[2]) != len(target[2]):
            return False, 'constructor differs'
        for a, b in zip(target[2], pat[2]):
            if b[0] == '*' or a[0] == '*':
                if a[0] != b[0]:
                    return False, 'projection differs (%s vs %s)' % (a[0], b[0])
                continue
            if a[0] != b[0]:
                return False, 'projection differs (%s vs %s)' % (a[0], b[0])
            ok, why = matches(tb, a[1], b[1], m)
            if not ok:
                return False, why
        return True, ''
    return (target == pat), 'differs'


def pattern_shape(label):
    import re
    return re.sub(r'\b[ABDEG]\b', 'C', label)


def check_table(sk, lang, tier, found, stats):
    from src.ir import BUILTIN_FACTORIES, type_utils as tu, types as tp
    factory = BUILTIN_FACTORIES[lang]
    tb, conv = universe.realise(sk, factory)
    cv = rconv.TermConv(tb, {type(v): k for k, v in conv.roles.items()})
    atoms = [universe.C('Number'), universe.C('Integer'), universe.C('String'), universe.C('P'), universe.C('Q')]
    if any(n == 'D' for n, _, _ in sk.classes):
        atoms.append(universe.C('D'))
    U = universe.enumerate_types(tb, sk, atoms, 1)
    if tier == 'thorough':
        U = list(dict.fromkeys(U + universe.enumerate_types(tb, sk, atoms[:2] + atoms[3:4], 2, stars=False, cap=300)))
    else:
        # nested plain instantiations (a generic subclass in a nested position)
        U = list(dict.fromkeys(U + universe.enumerate_types(tb, sk, [universe.C('Integer'), universe.C('P')], 2,
                                                            projections=False, stars=False, cap=120)))
    pats = patterns_for(tb, sk)
    for label, pterm in pats:
        vars_ = {}
        vterm = {}
        for v in open_vars(pterm):
            if v[1] not in vars_:
                vars_[v[1]] = tp.TypeParameter(v[1], tp.Invariant, conv(v[2], vars_) if v[2] is not None else None)
                vterm[v[1]] = v
        try:
            ipat = conv(pterm, vars_)
        except Exception:  # noqa
            continue
        for target in U:
            try:
                itarget = conv(target)
            except Exception:  # noqa
                continue
            for same_type in (True, False):
                stats['pairs'] = stats.get('pairs', 0) + 1
                try:
                    sigma = tu.unify_types(itarget, ipat, factory, same_type=same_type)
                except Exception as e:  # noqa
                    rec(found, 'unify-raises', type(e).__name__ + ' for pattern ' + pattern_shape(label), sk, lang,
                        target, label, same_type, str(e)[:160])
                    continue
                if not sigma:
                    stats['empty'] = stats.get('empty', 0) + 1
                    continue
                stats['nonempty'] = stats.get('nonempty', 0) + 1
                m = {}
                bad = False
                for k, v in sigma.items():
                    if isinstance(k, tp.TypeParameter) and v is not None:
                        m[k.name] = cv.arg(v)
                for k, v in sigma.items():
                    if not isinstance(k, tp.TypeParameter):
                        rec(found, 'non-variable-key', pattern_shape(label), sk, lang, target, label, same_type, str(k))
                        bad = True
                        continue
                    if v is None:
                        rec(found, 'variable-assigned-nothing', pattern_shape(label), sk, lang, target, label, same_type,
                            '%s := None' % k.name)
                        bad = True
                        continue
                    a = m[k.name]          # an argument: a type, or a projection taken from the target
                    b = vterm.get(k.name)
                    bt = exist_bound(tb, b[2], m) if b is not None else None
                    if a[0] != '*' and bt is not None and a[1][0] in ('c', 'nothing'):
                        if a[0] in ('t', 'out') and not rsub.may(tb, a[1], bt):
                            rec(found, 'assignment-violates-bound', pattern_shape(label), sk, lang, target, label,
                                same_type, '%s := %s' % (k.name, rsub.show(a[1])))
                            bad = True
                if bad:
                    continue
                spat = subst_args(pterm, m)
                if spat is None:
                    rec(found, 'not-a-unifier', pattern_shape(label) + (' [supertype mode]' if not same_type else ''),
                        sk, lang, target, label, same_type, 'a projection was assigned to a variable that the pattern projects')
                    continue
                if same_type:
                    cands = [target]
                else:
                    syntactic_supertypes.illformed = False
                    cands = syntactic_supertypes(tb, target) if target[0] == 'c' else [target]
                    if syntactic_supertypes.illformed:
                        # the supertype of this target is not expressible without capture (C06's recorded finding):
                        # nothing to compare with
                        stats['skipped_illformed_supertype'] = stats.get('skipped_illformed_supertype', 0) + 1
                        continue
                ok = False
                why = ''
                for c in cands:
                    ok, why = matches(tb, c, spat, m)
                    if ok:
                        break
                if not ok:
                    rec(found, 'not-a-unifier', pattern_shape(label) + (' [supertype mode]' if not same_type else ''),
                        sk, lang, target, label, same_type,
                        'sigma=%s gives %s (%s)' % ({k: _show_arg(v) for k, v in m.items()}, rsub.show(spat), why))


def _show_arg(a):
    return '*' if a[0] == '*' else ('' if a[0] == 't' else a[0] + ' ') + rsub.show(a[1])


def subst_args(t, m):
    """substitute arguments (types or projections) for variables; a projection may only replace a
    variable that stands alone as a plain type argument.  None = ill-formed."""
    if t[0] == 'v':
        a = m.get(t[1])
        if a is None:
            return t
        return a[1] if a[0] == 't' else None
    if t[0] != 'c' or not t[2]:
        return t
    args = []
    for a in t[2]:
        if a[0] == '*':
            args.append(a)
            continue
        if a[1][0] == 'v' and a[1][1] in m:
            r = m[a[1][1]]
            if r[0] == 't':
                args.append((a[0], r[1]))
            elif a[0] == 't':
                args.append(r)
            else:
                return None
            continue
        s = subst_args(a[1], m)
        if s is None:
            return None
        args.append((a[0], s))
    return ('c', t[1], tuple(args))


def syntactic_supertypes(tb, S):
    """supertypes by substituting the arguments as written (projections included) -- the reading
    unify_types works with; what capture would change is C06's recorded finding, not C10's."""
    out, seen, stack = [], set(), [S]
    while stack:
        t = stack.pop()
        if t in seen or t[0] != 'c':
            continue
        seen.add(t)
        out.append(t)
        info = tb.cls.get(t[1])
        if info is None:
            continue
        m = {p[0]: a for p, a in zip(info.params, t[2])}
        for s in info.supers:
            r = subst_args(s, m)
            if r is not None:
                stack.append(r)
            else:
                syntactic_supertypes.illformed = True     # a projection substituted into a projected position
    return out


def rec(found, rule, shape, sk, lang, target, label, same_type, note):
    k = (rule, shape)
    size = len(rsub.show(target))
    det = {'table': sk.label, 'language': lang, 'target': rsub.show(target), 'pattern': label, 'same_type': same_type,
           'note': note,
           'classes': [[n, [[p[0], p[1], rsub.show(p[2])] for p in ps], [rsub.show(s) for s in su]] for n, ps, su in sk.classes]}
    e = found.get(k)
    if e is None:
        found[k] = [1, size, det]
    else:
        e[0] += 1
        if size < e[1]:
            e[1], e[2] = size, det


def _work(arg):
    idxs, lang, tier = arg
    common.import_repo()
    import src.ir.ast  # noqa
    sks, _ = universe.skeletons(tier)
    found, stats = {}, {}
    for i in idxs:
        check_table(sks[i], lang, tier, found, stats)
        stats['tables'] = stats.get('tables', 0) + 1
    return found, stats


def run(tier, seed, jobs):
    res = Result(PROP, tier, seed, level='exploration')
    sks, rejected = universe.skeletons(tier)
    langs = ('kotlin', 'java') if tier == 'quick' else ('kotlin', 'java', 'groovy', 'scala')
    n = len(sks)
    step = max(1, n // (jobs * 2))
    tasks = [(list(range(i, min(n, i + step))), lang, tier) for lang in langs for i in range(0, n, step)]
    tasks = common.rotate(tasks, seed)
    found, stats = {}, {}
    with mp.get_context('fork').Pool(jobs) as pool:
        for f, st in pool.imap_unordered(_work, tasks):
            for k, v in st.items():
                stats[k] = stats.get(k, 0) + v
            for k, e in f.items():
                if k not in found:
                    found[k] = e
                else:
                    found[k][0] += e[0]
                    if e[1] < found[k][1]:
                        found[k][1], found[k][2] = e[1], e[2]
    for (rule, shape), (cnt, _, det) in sorted(found.items()):
        det = dict(det)
        det['instances'] = cnt
        res.add(Violation(PROP, rule, 'src/ir/type_utils.py:unify_types', shape, det))
    res.coverage = {
        'evaluations': stats.get('pairs', 0), 'distinct_nontrivial': stats.get('nonempty', 0),
        'rule': 'every (target, pattern, mode) triple of the universe is a distinct evaluation; non-trivial = unify_types '
                'returned a non-empty assignment, which was substituted back and compared',
        'tables': stats.get('tables', 0), 'exhaustive': True, 'stats': stats,
        'samples': [{'target': 'G<in Number>', 'pattern': 'G<out X>', 'same_type': True}],
    }
    return res


def replay(path):
    import json
    d = json.load(open(path))
    print('REPLAY: re-run ./check C10;', d['detail']['table'], d['detail']['target'], d['detail']['pattern'])
    return 1
