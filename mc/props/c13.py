"""C13 -- saved programs replay faithfully.

Deciding step: CTE; at every save point of every explored execution (generated, after each
erasure, after overwriting) the live program p is written with the real dump_program and read
back with the real load_program (written by the driver's own hephaestus.save_program, read through ProgramProcessor.get_program with --replay):
  * q = load(dump(p)) has the same canonical structural snapshot as p, and so has
    load(dump(q)) (dumping again is stable);
  * translate(q) == translate(p) in all four languages;
  * the mutations the pipeline went on to apply to p are re-applied to q under the SAME choice
    answers (replayed from the execution's trace; a different menu at any point is a
    divergence): flags, messages and resulting translations must be equal -- for q taken at
    the generated stage through erasure AND overwriting, for q taken after erasure through
    overwriting;
  * CROSS-INTERPRETER reload (what --replay really is): every saved .bin is also read back in a NEW
    interpreter whose string-hash seed differs from the saving one (PYTHONHASHSEED=1 vs 0), translated to
    the four languages, dumped again and reloaded; texts must equal the saving process' texts.  Anything
    the pickle carries that is only meaningful inside the saving interpreter (cached hashes, ids) shows here.
"""
import json
import os
import pickle
import shutil
import subprocess
import sys
import tempfile

from mc import common, explore, pipeline, snapshot, irwalk
from mc.choice import ChoiceSource
from mc.common import Result, Violation
from mc.pipeline import Config

PROP = 'C13'
SPEC = 'mc.props.c13:Oracle'
LANGS = pipeline.LANGS


def program_flat(P):
    """Canonical snapshot of a program for the round-trip comparison.

    Context._namespaces (reverse index declaration -> namespace) is compared only on its
    identity-keyed entries (declarations).  Entries keyed by *types* are value-hashed
    (TypeParameter.__hash__ ignores the bound, __eq__ does not), so two keys that became equal
    after insertion (a bound set later) legitimately collapse when the dict is rebuilt by
    unpickling; nothing the property names (translations, mutations, a second dump) can observe
    that, and no code in /repo calls Context.get_namespace."""
    from src.ir import types as tp
    f = snapshot.flat(P, ignore=frozenset(['_namespaces']))
    ctx = P.context
    where = {}
    for ns, kinds in ctx._context.items():
        for kind, entries in kinds.items():
            for name, v in entries.items():
                if v is not None and not isinstance(v, tp.Type):
                    where.setdefault(id(v), (ns, kind, name))
    rev = []
    for k, ns in ctx._namespaces.items():
        if k is None or isinstance(k, tp.Type):
            continue
        rev.append((repr(where.get(id(k), ('orphan', type(k).__name__, getattr(k, 'name', None)))), repr(ns)))
    f[('context', '_namespaces(identity-keyed)')] = tuple(sorted(rev))
    return f


class Divergence(Exception):
    pass


class ReplaySource(ChoiceSource):
    """Answers choice points with a recorded (menu size, answer) list; any mismatch of the
    menu size means the computation on the reloaded program diverged from the original."""

    def __init__(self, ns, ans):
        super().__init__('first', None, horizon=10 ** 9)
        self._rns = ns
        self._rans = ans

    def _pick(self, n, base_idx=None, u=None):
        pos = len(self.ns)
        if pos >= len(self._rns):
            raise Divergence('more choice points than the original (%d)' % pos)
        if self._rns[pos] != n:
            raise Divergence('menu size %d at point %d, original had %d' % (n, pos, self._rns[pos]))
        c = self._rans[pos]
        self.ns.append(n)
        self.base.append(c)
        self.ans.append(c)
        self.sites.append(None)
        return c


def segment(x, first, last):
    """trace slice [mark first, mark last)"""
    marks = dict((s, p) for s, p in x.cs.stage_marks)
    if first not in marks or last not in marks:
        return None
    a, b = marks[first], marks[last]
    return x.cs.ns[a:b], x.cs.ans[a:b]


class Oracle:
    def __init__(self, params):
        pipeline.setup_env()
        self.dir = tempfile.mkdtemp(prefix='verif-c13-', dir=common.scratch_root())
        self.stats = {'save_points': 0, 'roundtrips': 0, 'translations_compared': 0,
                      'mutations_replayed': 0, 'replay_via_processor': 0}
        self.hooks = {'after_gen': self._save('P0'), 'after_erase': self._save('P1'),
                      'after_overwrite': self._save('P2')}
        self._saved = {}
        self._vs = []
        self.cross = params.get('cross', True)
        self._xp = []          # pending cross-interpreter reloads
        self._xn = 0
        self.batch_vs = []
        self.stats['cross_interpreter_reloads'] = 0
        self.stats['cross_interpreter_translations'] = 0

    def finish_unit(self):
        self._flush_cross()
        shutil.rmtree(self.dir, ignore_errors=True)

    def _flush_cross(self):
        """reload the pending .bin files in a fresh interpreter with another string-hash seed"""
        if not self._xp:
            return
        pending, self._xp = self._xp, []
        index = os.path.join(self.dir, 'xp_index.json')
        with open(index, 'w') as f:
            json.dump([{'bin': b, 'config': c} for b, _, c, _, _ in pending], f)
        env = dict(os.environ)
        env['PYTHONHASHSEED'] = '1'
        env['PYTHONDONTWRITEBYTECODE'] = '1'
        out = subprocess.run([sys.executable, '-m', 'mc.props.c13', index], env=env, cwd=common.VERIF,
                             stdout=subprocess.PIPE, stderr=subprocess.PIPE, timeout=3600)
        if out.returncode != 0:
            raise RuntimeError('cross-interpreter loader failed: %s' % out.stderr.decode()[-1500:])
        got = json.loads(out.stdout.decode().strip().splitlines()[-1])
        for (b, want, cfg, stage, sched), g in zip(pending, got):
            self.stats['cross_interpreter_reloads'] += 1
            for L in LANGS:
                self.stats['cross_interpreter_translations'] += 1
                if g.get('error'):
                    self.batch_vs.append({'rule': 'reload-in-new-interpreter-raises', 'site': 'src/utils.py:load_program',
                                          'shape': g['error'][:60], 'schedule': sched, 'stage': stage})
                    break
                if list(want[L]) != list(g['first'][L]):
                    self.batch_vs.append({'rule': 'reloaded-in-new-interpreter-translates-differently',
                                          'site': 'src/utils.py:load_program',
                                          'shape': 'translation to %s differs at stage %s' % (L, stage), 'schedule': sched})
                elif list(want[L]) != list(g['second'][L]):
                    self.batch_vs.append({'rule': 'second-dump-in-new-interpreter-not-stable',
                                          'site': 'src/utils.py:dump_program',
                                          'shape': 'translation to %s differs at stage %s' % (L, stage), 'schedule': sched})
            try:
                os.remove(b)
            except OSError:
                pass

    # runs INSIDE the pipeline, at the moment hephaestus would save the program
    def _save(self, name):
        def hook(x):
            if name == 'P0':
                self._saved = {}
                self._vs = []
            utils = pipeline._env['utils']
            P = {'P0': x.P0, 'P1': x.P1, 'P2': x.P2}[name]
            with pipeline.oracle_scope(x):
                # saved the way the driver saves it: hephaestus.save_program(program, text, file) writes the source
                # and <file>.bin (three saves per execution, in the driver's order: generated, erased, overwritten)
                import hephaestus as H
                own_text = {'P0': x.T0, 'P1': x.T1, 'P2': x.T2}[name]
                src = os.path.join(self.dir, name, 'program.src')
                H.save_program(P, own_text, src)
                path = src + '.bin'
                self.stats['driver_saves'] = self.stats.get('driver_saves', 0) + 1
                with open(src) as f_:
                    if f_.read() != own_text:
                        self._vs.append({'rule': 'saved-source-differs', 'site': 'hephaestus.py:save_program',
                                         'shape': 'source stored next to the .bin differs from the translation at stage %s' % name})
                q = utils.load_program(path)
                self.stats['save_points'] += 1
                self.stats['roundtrips'] += 1
                fp = program_flat(P)
                fq = program_flat(q)
                d = snapshot.diff(fp, fq)
                if d:
                    self._vs.append({'rule': 'reloaded-program-differs', 'site': 'src/utils.py:load_program',
                                     'shape': 'snapshot of load(dump(p)) differs at stage %s' % name,
                                     'paths': [irwalk.fmt_path(r) for r in snapshot.roots(d)[:5]]})
                path2 = os.path.join(self.dir, name + '.2.bin')
                utils.dump_program(path2, q)
                q2 = utils.load_program(path2)
                d2 = snapshot.diff(fq, program_flat(q2))
                self.stats['roundtrips'] += 1
                if d2:
                    self._vs.append({'rule': 'second-dump-not-stable', 'site': 'src/utils.py:dump_program',
                                     'shape': 'load(dump(load(dump(p)))) differs at stage %s' % name,
                                     'paths': [irwalk.fmt_path(r) for r in snapshot.roots(d2)[:5]]})
                # through the driver's replay path
                args = pipeline.cli_args()
                from src.modules.processor import ProgramProcessor
                old = args.replay
                args.replay = path
                try:
                    proc = ProgramProcessor(1, args)
                    q3, oracle = proc.get_program()
                finally:
                    args.replay = old
                self.stats['replay_via_processor'] += 1
                if oracle is not True or snapshot.diff(fq, program_flat(q3)):
                    self._vs.append({'rule': 'replay-loads-different-program', 'site': 'src/modules/processor.py:get_program',
                                     'shape': 'get_program(--replay) differs at stage %s' % name})
                # translations of p and q in every language
                texts = {}
                for L in LANGS:
                    tp_ = self._tr(L, P)
                    tq = self._tr(L, q)
                    texts[L] = tp_
                    self.stats['translations_compared'] += 1
                    if tp_ != tq:
                        self._vs.append({'rule': 'reloaded-program-translates-differently',
                                         'site': 'src/utils.py:load_program',
                                         'shape': 'translation to %s differs at stage %s' % (L, name)})
                # history load ; mutate in place ; load again (what --replay with several iterations does):
                # the second load must still be the saved program
                from src.transformations.type_erasure import TypeErasure
                from src.transformations.type_overwriting import TypeOverwriting
                lang = x.config.lang
                qa = utils.load_program(path)
                try:
                    for cls_ in (TypeErasure, TypeOverwriting):
                        t_ = cls_(qa, lang, None, args.options[cls_.__name__])
                        t_.transform()
                except Exception:  # noqa  (failures of the mutations are C18's business)
                    pass
                qb = utils.load_program(path)
                self.stats['second_loads_after_mutation'] = self.stats.get('second_loads_after_mutation', 0) + 1
                if self._tr(lang, qb) != texts[lang]:
                    self._vs.append({'rule': 'second-load-after-mutation-differs', 'site': 'src/utils.py:load_program',
                                     'shape': 'load; mutate; load again gives a different program at stage %s' % name})
                self._saved[name] = q
                if self.cross:
                    self._xn += 1
                    keep = os.path.join(self.dir, 'xp_%d.bin' % self._xn)
                    shutil.copyfile(path, keep)
                    self._xp.append((keep, texts, x.config.to_json(), name, explore.schedule_json(x)))
            if len(self._xp) >= 240:
                self._flush_cross()
        return hook

    def _tr(self, L, P):
        try:
            return ('ok', pipeline.translate(pipeline.new_translator(L, 'src.a'), P))
        except Exception as e:  # noqa
            return ('exc', type(e).__name__, str(e)[:100])

    def _apply(self, cls_name, q, x, seg):
        from src.transformations.type_erasure import TypeErasure
        from src.transformations.type_overwriting import TypeOverwriting
        cls = {'TypeErasure': TypeErasure, 'TypeOverwriting': TypeOverwriting}[cls_name]
        args = pipeline.cli_args()
        rs = ReplaySource(*seg)
        pipeline.install_choice(rs, 0)
        tr = cls(q, x.config.lang, None, args.options[cls_name])
        tr.transform()
        if len(rs.ns) != len(seg[0]):
            raise Divergence('fewer choice points than the original: %d of %d' % (len(rs.ns), len(seg[0])))
        return tr

    def judge(self, x):
        vs = list(self._vs)
        self._vs = []
        if x.error is not None:
            return vs
        lang = x.config.lang
        q0 = self._saved.get('P0')
        q1 = self._saved.get('P1')
        try:
            seg_e = segment(x, 'erase0', 'translate1')
            seg_o = segment(x, 'overwrite', 'translate2')
            if q0 is not None and seg_e is not None and x.T1 is not None:
                tr = self._apply('TypeErasure', q0, x, seg_e)
                self.stats['mutations_replayed'] += 1
                pipeline.oracle_choices(x)
                t = self._tr(lang, tr.result())
                if bool(tr.is_transformed) != x.erasure_flags[0] or t != ('ok', x.T1):
                    vs.append({'rule': 'mutation-on-reloaded-program-differs', 'site': 'TypeErasure',
                               'shape': 'erasure of load(dump(generated program)) differs from erasure of the original'})
                elif seg_o is not None and x.T2 is not None:
                    tr2 = self._apply('TypeOverwriting', tr.result(), x, seg_o)
                    self.stats['mutations_replayed'] += 1
                    pipeline.oracle_choices(x)
                    t2 = self._tr(lang, tr2.result())
                    want = x.T2.replace('package src.b', 'package src.a', 1)
                    if bool(tr2.is_transformed) != x.ow_flag or tr2.error_injected != x.ow_msg or t2 != ('ok', want):
                        vs.append({'rule': 'mutation-on-reloaded-program-differs', 'site': 'TypeErasure+TypeOverwriting',
                                   'shape': 'overwriting after erasure of load(dump(generated program)) differs'})
            if q1 is not None and seg_o is not None and x.T2 is not None:
                tr2 = self._apply('TypeOverwriting', q1, x, seg_o)
                self.stats['mutations_replayed'] += 1
                pipeline.oracle_choices(x)
                t2 = self._tr(lang, tr2.result())
                want = x.T2.replace('package src.b', 'package src.a', 1)
                if bool(tr2.is_transformed) != x.ow_flag or tr2.error_injected != x.ow_msg or t2 != ('ok', want):
                    vs.append({'rule': 'mutation-on-reloaded-program-differs', 'site': 'TypeOverwriting',
                               'shape': 'overwriting of load(dump(erased program)) differs from overwriting of the original'})
        except Divergence as e:
            vs.append({'rule': 'mutation-on-reloaded-program-diverges', 'site': 'transformations',
                       'shape': 'choice points of the mutation on the reloaded program differ', 'message': str(e)})
        except Exception as e:  # noqa
            vs.append({'rule': 'mutation-on-reloaded-program-raises', 'site': 'transformations',
                       'shape': type(e).__name__, 'message': str(e)[:200]})
        return vs


def plan(tier):
    z = (0, 0, 0, 0)
    if tier == 'quick':
        return [
            ([Config(l, z, 'S') for l in LANGS], [('prng', 1), ('prng', 2)], 1, 8),
            ([Config(l, z, 'D') for l in LANGS], [('prng', 1), ('prng', 2), 'first', 'alt'], 0, 1),
        ]
    from mc import plans
    return plans.thorough(LANGS, 'heavy')


def run(tier, seed, jobs):
    res = Result(PROP, tier, seed, level='model_checking')
    execs = trans = capped = validated = 0
    states = set()
    stats = {}
    samples = []
    plans = []
    for configs, policies, bound, nslices in plan(tier):
        tot = explore.explore(configs, policies, bound, SPEC, {}, jobs, seed, nslices)
        execs += tot.execs
        trans += tot.transitions
        states |= tot.states
        capped += tot.capped
        res.harness_errors.extend(tot.errors)
        for v in tot.violations:
            res.add(Violation(PROP, v['rule'], v['site'], v['shape'],
                              {k: v[k] for k in v if k not in ('rule', 'site', 'shape')}))
        explore._merge_stats(stats, tot.stats)
        samples.extend(tot.samples[:1])
        plans.append({'configs': len(configs), 'limits': configs[0].limits, 'policies': len(policies),
                      'deviation_bound': bound, 'executions': tot.execs})
        validated += explore.validate_fresh(tot, res, oracle_spec=SPEC)
    res.coverage = {
        'states': len(states), 'transitions': trans,
        'traces_validated_against_impl': stats.get('mutations_replayed', 0),
        'fresh_process_replays': validated,
        'executions': execs, 'samples': samples[:3], 'exploration_plan': plans,
        'exhaustive': capped == 0, 'caps_hit': capped, 'stats': stats,
        'explanation': 'states = distinct program texts; transitions = choice points answered; '
                       'traces_validated_against_impl = recorded mutation traces replayed answer-by-answer on the '
                       'reloaded program (menu sizes must match at every point)',
    }
    res.assumptions = ['identity-hash iteration order is neutralised by the per-execution hash counter, which '
                       'travels with the pickle']
    return res


def replay(path):
    d = json.load(open(path))['detail']
    o = Oracle({})
    x = explore.run_schedule(d['schedule'], hooks=o.hooks)
    vs = o.judge(x)
    o.finish_unit()
    vs = vs + list(o.batch_vs)
    print('REPLAY', vs)
    return 1 if vs else 0


def _xload_main(index):
    """runs in the NEW interpreter (PYTHONHASHSEED differs from the saving process)"""
    common.install_arena_cache()
    sys.argv = [sys.argv[0]]
    pipeline.setup_env()
    utils = pipeline._env['utils']
    out = []
    for item in json.load(open(index)):
        r = {'first': {}, 'second': {}}
        try:
            pipeline.configure(Config.from_json(item['config']))
            pipeline.reset_hash_counter()
            cs = ChoiceSource('first', None, horizon=200000)
            pipeline.install_choice(cs, 0)
            q = utils.load_program(item['bin'])
            for L in LANGS:
                try:
                    r['first'][L] = ('ok', pipeline.translate(pipeline.new_translator(L, 'src.a'), q))
                except Exception as e:  # noqa
                    r['first'][L] = ('exc', type(e).__name__, str(e)[:100])
            again = item['bin'] + '.again'
            utils.dump_program(again, q)
            q2 = utils.load_program(again)
            os.remove(again)
            for L in LANGS:
                try:
                    r['second'][L] = ('ok', pipeline.translate(pipeline.new_translator(L, 'src.a'), q2))
                except Exception as e:  # noqa
                    r['second'][L] = ('exc', type(e).__name__, str(e)[:100])
        except Exception as e:  # noqa
            r['error'] = '%s: %s' % (type(e).__name__, str(e)[:200])
        out.append(r)
    print(json.dumps(out))


if __name__ == '__main__':
    _xload_main(sys.argv[1])
