"""C05 -- generated programs are closed and respect scoping and mutability rules.

Deciding step: (1) CTE (generation stage, same plan as C01) with the scope rules of the reference
checker (its own lexical scopes: every variable, call, function reference, field access and
constructor call resolves, arity admits the arguments, only non-final targets are assigned, only
regular classes are instantiated) plus R-SCOPE extras (unique identifiers per scope, no reserved
word, type variables in scope, Java captures); (2) a full sweep of the word list: all 52 062 words
x {as-is, lower, capitalize} x 4 languages against the pool the real remove_reserved_words leaves,
judged by authoritative hard-keyword lists kept in the harness; (3) an exhaustive history search of
the real word()/reset_word_pool() contract on a 3-word pool.
"""
import itertools
import os

from mc import common, explore, pipeline
from mc.common import Result, Violation
from mc.props import c01

PROP = 'C05'
SPEC = 'mc.props.c05:Oracle'


class Oracle(c01.Oracle):
    def __init__(self, params):
        super().__init__({'rules': 'scope'})
        self.stats['scope_extra_programs'] = 0

    def judge(self, x):
        from mc.ref import rscope
        vs = super().judge(x)
        if x.P0 is None:
            return vs
        self.stats['scope_extra_programs'] += 1
        seen = set()
        for kind, path, detail in rscope.extra_scope_alarms(x.P0, x.config.lang):
            if kind in seen:
                continue
            seen.add(kind)
            shape = kind if kind != 'reserved-word' else 'reserved-word: ' + detail.split(' named ')[-1]
            vs.append({'rule': kind, 'site': 'generator', 'shape': shape, 'language': x.config.lang,
                       'path': '/'.join(path), 'detail': detail})
        return vs


def word_sweep(res):
    """all words x transforms x languages against the filtered pool"""
    common.import_repo()
    from src import utils
    from mc.ref import rscope
    words = sorted(set(utils.read_lines(os.path.join(common.REPO, 'src', 'resources', 'words'))))
    n = 0
    for lang in pipeline.LANGS:
        R = object.__new__(utils.RandomUtils)
        R.INITIAL_WORDS = set(words)
        R.WORDS = set(words)
        R.remove_reserved_words(lang)      # the real filter
        pool = R.INITIAL_WORDS
        kw = rscope.KEYWORDS[lang]
        for w in sorted(pool):
            for form, f in (('as-is', lambda s: s), ('lower', str.lower), ('capitalize', str.capitalize)):
                n += 1
                if f(w) in kw:
                    res.add(Violation(PROP, 'reserved-word-in-pool', 'src/resources/%s_keywords' % lang,
                                      '%s (%s) is a hard keyword of %s' % (f(w), form, lang),
                                      {'word': w, 'form': form, 'language': lang}))
    return n, len(words)


def word_pool_histories(res):
    """exhaustive histories (depth <= 5) of word()/reset_word_pool() on a 3-word pool with every
    answer of the random draw: uniqueness between resets, only pool words, exhaustion raises"""
    common.import_repo()
    from src import utils
    n = 0
    words = ['a', 'b', 'c']
    for depth in range(1, 6):
        for ops in itertools.product(('word', 'reset'), repeat=depth):
            nwords = ops.count('word')
            for answers in itertools.product(range(3), repeat=nwords):
                R = object.__new__(utils.RandomUtils)
                R.INITIAL_WORDS = set(words)
                R.WORDS = set(words)
                it = iter(answers)

                class Ch:
                    def choice(self, seq):
                        if not seq:
                            raise IndexError('Cannot choose from an empty sequence')
                        return seq[next(it) % len(seq)]
                R.r = Ch()
                handed = []
                n += 1
                ok = True
                for op in ops:
                    if op == 'reset':
                        R.reset_word_pool()
                        handed = []
                    else:
                        try:
                            w = R.word()
                        except (IndexError, KeyError):
                            if len(handed) < 3:
                                ok = False
                            continue
                        if w in handed or w not in words:
                            ok = False
                        handed.append(w)
                if not ok:
                    res.add(Violation(PROP, 'word-pool-contract', 'src/utils.py:word', 'duplicate or foreign word',
                                      {'ops': list(ops), 'answers': list(answers)}))
    return n


def run(tier, seed, jobs):
    res = Result(PROP, tier, seed, level='model_checking')
    execs = trans = capped = validated = 0
    states = set()
    stats = {}
    samples = []
    plans = []
    for configs, policies, bound, nslices in c01.plan(tier):
        tot = explore.explore(configs, policies, bound, SPEC, {}, jobs, seed, nslices, run_kw=c01.RUN_KW)
        execs += tot.execs
        trans += tot.transitions
        states |= tot.states
        capped += tot.capped
        res.harness_errors.extend(tot.errors)
        for v in tot.violations:
            res.add(Violation(PROP, v['rule'], v['site'], v['shape'],
                              {k: v[k] for k in v if k not in ('rule', 'site', 'shape')}))
        explore._merge_stats(stats, tot.stats)
        samples.extend(tot.samples[:1])
        plans.append({'configs': len(configs), 'limits': configs[0].limits, 'policies': len(policies),
                      'deviation_bound': bound, 'executions': tot.execs})
        validated += explore.validate_fresh(tot, res, c01.RUN_KW)
    nsweep, nwords = word_sweep(res)
    nhist = word_pool_histories(res)
    res.coverage = {
        'states': len(states), 'transitions': trans, 'traces_validated_against_impl': validated,
        'executions': execs, 'samples': samples[:2], 'exploration_plan': plans,
        'exhaustive': capped == 0, 'caps_hit': capped, 'reference_checker': stats,
        'word_sweep_checks': nsweep, 'words': nwords, 'word_pool_histories': nhist,
        'explanation': 'states = distinct program texts; transitions = choice points answered; plus the full word-list '
                       'sweep and the word-pool history search',
    }
    return res


def replay(path):
    import json
    d = json.load(open(path))['detail']
    if 'schedule' not in d:
        print('REPLAY: word-list finding', d)
        return 1
    x = explore.run_schedule(d['schedule'], **c01.RUN_KW)
    vs = Oracle({}).judge(x)
    for v in vs:
        print('REPLAY', v['rule'], v.get('path'), v.get('detail'))
    return 1 if vs else 0
