"""C15 -- the driver reports a fault exactly on an oracle mismatch and counts correctly.

Deciding step: exhaustive enumeration of scripted sessions of the REAL driver (mc/drv.py):
per program {generation fails, pass-only program (compiles / does not), pass+fail pair (4
verdict combinations), [thorough: fault injection fails]} x batch-level compiler crash x batch
layouts x sequential / worker-pool mode, and for each session a DFS over every schedule:
all completion orders of the virtual pool and all package-name draws {fresh, already used in
this batch}.  Every complete run is compared with the reference model (mc/ref/driver_model.py):
fault set, messages, saved test cases, leftover files, counters, faults.json / stats.json.
"""
import itertools
import json
import multiprocessing as mp

from mc import common
from mc.common import Result, Violation

PROP = 'C15'


def classify(scenario, trace_menus, rule):
    """Abstract shape of a failing scenario (identity of a finding); a violation whose shape is not
    listed in known_findings.json is reported."""
    from mc.ref.driver_model import batches
    feats = []
    progs = scenario['progs']
    bl = batches(scenario)
    for bno, pids in enumerate(bl, start=1):
        crash = bno in scenario['crash']
        kinds = [progs[p] for p in pids]
        if crash and any(k[0] in ('genfail', 'injfail') for k in kinds):
            feats.append('crash-batch-with-tool-failure')
        if not crash and any(k[0] == 'pair' and not k[1] and k[2] for k in kinds):
            feats.append('double-mismatch')
        if any(k[0] == 'injfail' for k in kinds):
            feats.append('fault-injection-failed')
    if any(kind == 'word' and c == 1 for (n, kind), c in trace_menus):
        feats.append('package-name-reused-in-batch')
    feats = sorted(set(feats))
    return '%s [%s]' % ('+'.join(feats) if feats else 'no special feature', scenario['mode'])


def _explore_chunk(arg):
    lang, layout, mode, keep_all, combos, crash_opts, specs = arg
    from mc import drv
    from mc.ref import driver_model as dm
    h = drv.Harness(lang)
    runs = 0
    sessions = 0
    found = {}
    outcomes = set()
    max_sched = 0
    try:
        batch, iterations = layout
        for combo in combos:
            progs = {i + 1: specs[c] for i, c in enumerate(combo)}
            for crash in crash_opts:
                sc = {'progs': progs, 'crash': set(crash), 'batch': batch, 'iterations': iterations,
                      'mode': mode, 'keep_all': keep_all}
                sessions += 1
                stack = [[]]
                nsched = 0
                while stack:
                    pre = stack.pop()
                    obs = h.run_session(sc, pre)
                    runs += 1
                    nsched += 1
                    for i in range(len(pre), len(obs['menus'])):
                        for alt in range(1, obs['menus'][i][0]):
                            stack.append(obs['trace'][:i] + [alt])
                    outcomes.add((tuple(sorted(obs['faults'])), obs['totals']['passed'], obs['totals']['failed'],
                                  len(obs['tree'])))
                    vs = dm.judge(sc, obs, lang)
                    for rule, desc in vs:
                        shape = classify(sc, list(zip(obs['menus'], obs['trace'])), rule)
                        key = (rule, shape)
                        size = (len(progs), len(obs['trace']), sum(obs['trace']))
                        if key not in found or size < found[key][0]:
                            found[key] = (size, {'scenario': {'progs': {str(k): list(v) for k, v in progs.items()},
                                                              'crash': sorted(crash), 'batch': batch,
                                                              'iterations': iterations, 'mode': mode,
                                                              'keep_all': keep_all, 'lang': lang},
                                                 'schedule': obs['trace'], 'menus': obs['menus'],
                                                 'description': desc}, 1)
                        else:
                            found[key] = (found[key][0], found[key][1], found[key][2] + 1)
                max_sched = max(max_sched, nsched)
    finally:
        h.close()
    return runs, sessions, found, outcomes, max_sched


def plan(tier):
    """-> list of (lang, (batch, iterations), mode, keep_all, n_specs, crash options)"""
    out = []
    if tier == 'quick':
        for mode in ('seq', 'pool'):
            out.append(('java', (2, 4), mode, False, 7, 'single'))
            out.append(('java', (2, 3), mode, False, 7, 'single'))   # last batch shorter than --batch
            out.append(('java', (3, 3), mode, False, 7, 'single'))
        out.append(('kotlin', (2, 3), 'seq', False, 7, 'single'))
        out.append(('java', (2, 2), 'seq', True, 7, 'single'))
    else:
        for mode in ('seq', 'pool'):
            out.append(('java', (2, 4), mode, False, 9, 'all'))
            out.append(('java', (3, 3), mode, False, 9, 'all'))
            out.append(('java', (1, 3), mode, False, 9, 'all'))
            out.append(('java', (2, 5), mode, False, 5, 'single'))
            out.append(('java', (2, 4), mode, True, 7, 'single'))
        for lang in ('kotlin', 'groovy', 'scala'):
            for mode in ('seq', 'pool'):
                out.append((lang, (2, 3), mode, False, 9, 'all'))
                out.append((lang, (3, 3), mode, False, 7, 'single'))
    return out


def crash_options(layout, how):
    batch, iterations = layout
    nb = (iterations + batch - 1) // batch
    if how == 'single':
        return [()] + [(b,) for b in range(1, nb + 1)]
    return [c for k in range(nb + 1) for c in itertools.combinations(range(1, nb + 1), k)]


def run(tier, seed, jobs):
    from mc import drv
    res = Result(PROP, tier, seed, level='model_checking')
    tasks = []
    descr = []
    for lang, layout, mode, keep_all, nspecs, crash_how in plan(tier):
        specs = drv.SPECS_ALL[:nspecs]
        combos = list(itertools.product(range(nspecs), repeat=layout[1]))
        copts = crash_options(layout, crash_how)
        chunk = max(1, len(combos) // (jobs * 3))
        for i in range(0, len(combos), chunk):
            tasks.append((lang, layout, mode, keep_all, combos[i:i + chunk], copts, specs))
        descr.append({'lang': lang, 'batch': layout[0], 'programs': layout[1], 'mode': mode, 'keep_all': keep_all,
                      'program_specs': nspecs, 'sessions': len(combos) * len(copts)})
    tasks = common.rotate(tasks, seed)
    runs = sessions = 0
    found = {}
    outcomes = set()
    max_sched = 0
    with mp.get_context('fork').Pool(jobs) as pool:
        for r, s, f, o, ms in pool.imap_unordered(_explore_chunk, tasks):
            runs += r
            sessions += s
            outcomes |= o
            max_sched = max(max_sched, ms)
            for k, (size, det, n) in f.items():
                if k not in found or size < found[k][0]:
                    found[k] = (size, det, n + (found[k][2] if k in found else 0))
                else:
                    found[k] = (found[k][0], found[k][1], found[k][2] + n)
    for (rule, shape), (size, det, n) in sorted(found.items()):
        det = dict(det)
        det['instances'] = n
        res.add(Violation(PROP, rule, 'hephaestus.py', shape, det))
    res.coverage = {
        'states': len(outcomes), 'transitions': runs, 'traces_validated_against_impl': runs,
        'sessions': sessions, 'complete_runs': runs, 'max_schedules_per_session': max_sched,
        'plan': descr, 'exhaustive': True,
        'samples': [{'scenario': {'progs': {'1': ['ok', True], '2': ['pair', False, True]}, 'crash': [], 'batch': 2,
                                  'iterations': 2, 'mode': 'pool'},
                     'meaning': 'batch of a passing program and a pair whose expected-pass file fails while its '
                                'expected-fail file compiles; pool mode, every completion order'}],
        'explanation': 'states = distinct observed outcomes (fault set, counters, tree size); transitions = complete '
                       'driver runs (one per session and schedule), each compared with the reference decision table',
    }
    res.assumptions = ['compiler and program stages are scripted stand-ins; the driver code is the real one',
                       'the virtual pool completes oracle tasks only at apply_async/get/join points and pickles at the boundary']
    return res


def replay(path):
    from mc import drv
    from mc.ref import driver_model as dm
    d = json.load(open(path))['detail']
    sc = d['scenario']
    lang = sc.get('lang', 'java')
    h = drv.Harness(lang)
    try:
        s = {'progs': {int(k): tuple(v) for k, v in sc['progs'].items()}, 'crash': set(sc['crash']),
             'batch': sc['batch'], 'iterations': sc['iterations'], 'mode': sc['mode'],
             'keep_all': sc.get('keep_all', False)}
        obs = h.run_session(s, d['schedule'])
        vs = dm.judge(s, obs, lang)
    finally:
        h.close()
    print('REPLAY', vs)
    return 1 if vs else 0
