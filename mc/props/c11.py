"""C11 -- translation is a pure function of the program.

Deciding step, per explored execution (CTE, mc/explore.py): an explicit-state BFS over
translation histories.  Alphabet: translate(P_i, shared translator of language L),
i in {generated, erased, overwritten}, L in 4 languages (3 programs x 4 languages).  A state is
(digest of the 4 long-lived translator objects' attributes, digest of the 3 programs); it is
the complete input of every future translation, so states with equal digests have equal
futures and are merged.  The search runs to depth 3 (or until no new state appears).
Oracle on every transition:
  * the text returned equals the reference text of (P_i, L) = fresh translator, fresh copy;
  * the structural snapshot of every program is unchanged;
  * an exception of a FOREIGN-language translator is tolerated (counted), but whether it is
    raised must itself be history independent.
In addition the pipeline's own texts T0/T1/T2 (same translator object used three times in
sequence, as hephaestus.gen_program does, under the explored deviations -- including
deviations at the random draws *inside* translation) must equal the reference texts.
"""
import hashlib
import pickle

from mc import explore, pipeline, irwalk, snapshot
from mc.common import Result, Violation
from mc.pipeline import Config

PROP = 'C11'
SPEC = 'mc.props.c11:Oracle'
LANGS = pipeline.LANGS


def stabilise(P):
    """Assign the harness hash counter to every node now, so that lazily added `_vh`
    attributes cannot show up as a difference later."""
    from src.ir.node import Node
    for _, o in irwalk.walk(P):
        if isinstance(o, Node):
            try:
                hash(o)
            except TypeError:
                pass


def tr_digest(tr):
    d = {k: v for k, v in tr.__dict__.items() if k != 'program'}
    cls = {k: v for k, v in type(tr).__dict__.items()
           if not callable(v) and not k.startswith('__') and not isinstance(v, (staticmethod, classmethod, property))}
    try:
        return hashlib.md5(pickle.dumps((sorted(d.items()), sorted(cls.items())))).hexdigest()
    except Exception:  # noqa  (unpicklable attribute: fall back to the reflective snapshot)
        return snapshot.digest({'inst': d, 'cls': cls})


class Oracle:
    def __init__(self, params):
        pipeline.setup_env()
        self.depth = params.get('depth', 3)
        self.stats = {'bfs_states': 0, 'bfs_transitions': 0, 'foreign_exceptions': 0,
                      'programs': 0, 'max_bfs_states_per_exec': 0, 'reference_translations': 0,
                      'pickle_only_diffs': 0, 'canary_translations': 0}
        # canary: a small program with the texts a fresh translator printed for it before anything else was
        # translated in the checking process; a fresh translator must print it identically after every
        # execution (state shared between translator OBJECTS -- class attributes, module globals -- is invisible
        # to the per-object BFS below)
        c = params.get('canary')
        self.canaries = [(c['pickle'], dict(c['texts']))] if c else []

    # -- helpers ---------------------------------------------------------------------------
    def _translate(self, tr, P):
        try:
            return ('ok', pipeline.translate(tr, P))
        except Exception as e:  # noqa
            return ('exc', type(e).__name__)

    def judge(self, x):
        if x.error is not None or x.P0 is None:
            return []
        vs = []
        lang = x.config.lang
        pipeline.oracle_choices(x)
        progs = []
        if x.P0_pickle:
            progs.append(('P0', pickle.loads(x.P0_pickle), x.T0, 'src.a'))
        if x.P1_pickle:
            progs.append(('P1', pickle.loads(x.P1_pickle), x.T1, 'src.a'))
        if x.P2 is not None:
            progs.append(('P2', x.P2, x.T2, 'src.b'))
        for _, P, _, _ in progs:
            stabilise(P)
        self.stats['programs'] += len(progs)
        before = [pickle.dumps(P) for _, P, _, _ in progs]

        # reference texts: fresh translator on a fresh copy
        ref = {}
        for i, (name, P, _, pkg) in enumerate(progs):
            for L in LANGS:
                copy = pickle.loads(before[i])
                ref[(i, L)] = self._translate(pipeline.new_translator(L, 'src.a'), copy)
                self.stats['reference_translations'] += 1
        # pipeline texts (shared translator, used 3 times in sequence, under the deviations)
        for i, (name, P, T, pkg) in enumerate(progs):
            r = ref[(i, lang)]
            want = r[1] if pkg == 'src.a' or r[0] != 'ok' else r[1].replace('package src.a', 'package src.b', 1)
            if r[0] != 'ok' or T != want:
                vs.append({'rule': 'pipeline-text-differs-from-fresh-translation', 'site': 'src/translators/%s.py' % lang,
                           'shape': '%s text of the shared per-program translator differs from a fresh translator' % name})

        def check_unchanged(tag):
            out = []
            for i, (name, P, _, _) in enumerate(progs):
                now = pickle.dumps(P)
                if now != before[i]:
                    fa = snapshot.flat(pickle.loads(before[i]))
                    fb = snapshot.flat(P)
                    d = snapshot.diff(fa, fb)
                    if d:
                        out.append((name, [irwalk.fmt_path(r) for r in snapshot.roots(d)[:5]]))
                    else:
                        self.stats['pickle_only_diffs'] += 1
                        before[i] = now
            return out

        # BFS over histories.  Translators are separate objects; every transition checks that the
        # programs and the OTHER languages' (used) translators are unchanged, which justifies
        # exploring the product space factor by factor: one BFS per language over the events
        # translate(P_i, L), state = attributes of translator L.
        witnesses = {}
        for L in LANGS:
            w = pipeline.new_translator(L, 'src.a')
            self._translate(w, progs[0][1])
            witnesses[L] = (w, tr_digest(w))
        nstates_total = 0
        for L in LANGS:
            def build(hist):
                tr = pipeline.new_translator(L, 'src.a')
                last = None
                for i in hist:
                    last = self._translate(tr, progs[i][1])
                return tr, last
            tr0, _ = build([])
            seen = {tr_digest(tr0)}
            frontier = [[]]
            nstates = 1
            for depth in range(self.depth):
                nxt = []
                for hist in frontier:
                    for i in range(len(progs)):
                        h2 = hist + [i]
                        tr, got = build(h2)
                        self.stats['bfs_transitions'] += 1
                        want = ref[(i, L)]
                        hnames = [progs[a][0] for a in h2]
                        if got != want:
                            if got[0] == 'exc' or want[0] == 'exc':
                                rule = 'exception-depends-on-history'
                            else:
                                rule = 'text-depends-on-history'
                            vs.append({'rule': rule, 'site': 'src/translators/%s.py' % L,
                                       'shape': rule, 'history': hnames, 'foreign': L != lang})
                        elif got[0] == 'exc':
                            self.stats['foreign_exceptions'] += 1
                            if L == lang:
                                vs.append({'rule': 'own-language-translation-raises',
                                           'site': 'src/translators/%s.py' % lang,
                                           'shape': '%s raised %s' % (progs[i][0], got[1]), 'history': hnames})
                        for name, roots in check_unchanged(h2):
                            vs.append({'rule': 'translation-modifies-program', 'site': 'src/translators/%s.py' % L,
                                       'shape': 'translation changed the program', 'paths': roots,
                                       'program': name, 'history': hnames})
                        for L2 in LANGS:
                            if L2 != L and tr_digest(witnesses[L2][0]) != witnesses[L2][1]:
                                vs.append({'rule': 'translation-modifies-other-translator',
                                           'site': 'src/translators/%s.py' % L,
                                           'shape': 'state of the %s translator changed' % L2, 'history': hnames})
                                witnesses[L2] = (witnesses[L2][0], tr_digest(witnesses[L2][0]))
                        k = tr_digest(tr)
                        if k not in seen:
                            seen.add(k)
                            nstates += 1
                            nxt.append(h2)
                frontier = nxt
                if not frontier:
                    break
            if frontier:
                self.stats['bfs_open_frontier'] = self.stats.get('bfs_open_frontier', 0) + 1
            nstates_total += nstates
        for cb, texts in self.canaries:
            for L in LANGS:
                got = self._translate(pipeline.new_translator(L, 'src.a'), pickle.loads(cb))
                self.stats['canary_translations'] += 1
                if got != texts[L]:
                    vs.append({'rule': 'fresh-translator-depends-on-earlier-translations',
                               'site': 'src/translators/%s.py' % L,
                               'shape': 'a fresh translator prints an earlier program differently after the translations '
                                        'of this execution', 'history': ['<translations of this execution>'], 'foreign': L != lang})
                    texts[L] = got
        self.stats['bfs_states'] += nstates_total
        self.stats['max_bfs_states_per_exec'] = max(self.stats['max_bfs_states_per_exec'], nstates_total)
        # dedupe identical (rule, site) within one execution, keep the shortest history
        out = {}
        for v in vs:
            k = (v['rule'], v['site'])
            if k not in out or len(v.get('history', [])) < len(out[k].get('history', [])):
                out[k] = v
        res = []
        for v in out.values():
            res.append(dict(v))
        return res


def make_canary():
    """to be called before anything else is translated in this process"""
    pipeline.setup_env()
    x = pipeline.run_execution(Config('kotlin', (0, 0, 0, 0), 'XS'), ('prng', 1), {}, stages=('gen',))
    o = Oracle({})
    texts = {L: o._translate(pipeline.new_translator(L, 'src.a'), pickle.loads(x.P0_pickle)) for L in LANGS}
    return {'pickle': x.P0_pickle, 'texts': texts}


# ---- histories over DIFFERENT programs that share identifiers ------------------------------------------------

def _cross_program(arg):
    """all histories over {translate A, translate B, translate C} up to `depth` on one long-lived translator of
    language L (A, B, C: mc/progfam.name_clash_programs); every text must equal the reference recorded FIRST (fresh
    translator, before any history), and after every history a fresh translator must still print the references."""
    import itertools
    lang, depth = arg
    pipeline.setup_env()
    from mc import progfam
    from mc.choice import ChoiceSource
    pipeline.configure(Config(lang, (0, 0, 0, 0), 'S'))
    pipeline.reset_hash_counter()
    pipeline.install_choice(ChoiceSource('first', None, horizon=10 ** 7), 0)
    progs = progfam.name_clash_programs(lang)
    out, stats = [], {'cross_histories': 0, 'cross_translations': 0}

    def tr(t, P):
        try:
            return ('ok', pipeline.translate(t, P))
        except Exception as e:  # noqa
            return ('exc', type(e).__name__, str(e)[:120])
    ref = {n: tr(pipeline.new_translator(lang, 'src.a'), P) for n, P in progs.items()}
    before = {n: pickle.dumps(P) for n, P in progs.items()}
    for n, r in ref.items():
        if r[0] != 'ok':
            return [], {'cross_reference_failed': 1}     # hand-built shape the translator does not support: nothing judged
    for L in range(1, depth + 1):
        for hist in itertools.product(sorted(progs), repeat=L):
            stats['cross_histories'] += 1
            t = pipeline.new_translator(lang, 'src.a')
            bad = None
            for i, n in enumerate(hist):
                stats['cross_translations'] += 1
                if tr(t, progs[n]) != ref[n]:
                    bad = ('shared-translator-text-depends-on-earlier-programs',
                           'text of a program differs after the same translator translated other programs', i)
                    break
            if bad is None:
                for n in sorted(progs):
                    stats['cross_translations'] += 1
                    if tr(pipeline.new_translator(lang, 'src.a'), progs[n]) != ref[n]:
                        bad = ('fresh-translator-text-depends-on-earlier-translations',
                               'a fresh translator prints a different text after other translations in the process', n)
                        break
            if bad is None and any(pickle.dumps(P) != before[n] for n, P in progs.items()):
                bad = ('translation-modified-a-program', 'a hand-built program changed while being translated', None)
            if bad:
                out.append({'rule': bad[0], 'site': 'src/translators/%s.py' % lang, 'shape': bad[1],
                            'history': list(hist), 'at': bad[2], 'language': lang})
                if len(out) >= 3:
                    return out, stats
    return out, stats


def plan(tier):
    langs = LANGS
    z = (0, 0, 0, 0)
    if tier == 'quick':
        return [
            ([Config(l, z, 'S') for l in langs], [('prng', 1), ('prng', 2)], 1, 8),
            ([Config(l, z, 'D') for l in langs], [('prng', 1), ('prng', 2), 'first', 'alt'], 0, 1),
            # functions with up to 5 parameters: FunctionN interfaces beyond the fixed four (Java/Groovy)
            ([Config(l, z, 'P') for l in ('java', 'groovy')], [('prng', c) for c in range(1, 9)], 0, 1),
        ]
    from mc import plans
    return plans.thorough(LANGS, 'heavy')


def run(tier, seed, jobs):
    res = Result(PROP, tier, seed, level='model_checking')
    execs = trans = capped = validated = 0
    states = set()
    stats = {}
    samples = []
    plans = []
    canary = make_canary()
    from mc import progfam
    # hand-built family (mc/progfam.py): every alternative of the overwriting mutation on every core program
    fam = [(progfam.family_configs(LANGS if tier == 'thorough' else ('kotlin', 'java'), 'core' if tier == 'thorough' else 'mini'), ['first'], 1, 1, {'chunk': 3, 'run_kw': {'deviate_stages': ('overwrite',)}})]
    for part in fam + [tuple(p_) + ({},) for p_ in plan(tier)]:
        configs, policies, bound, nslices, extra = part
        tot = explore.explore(configs, policies, bound, SPEC, {'canary': canary}, jobs, seed, nslices,
                              run_kw=extra.get('run_kw'), chunk=extra.get('chunk'))
        execs += tot.execs
        trans += tot.transitions
        states |= tot.states
        capped += tot.capped
        res.harness_errors.extend(tot.errors)
        for v in tot.violations:
            res.add(Violation(PROP, v['rule'], v['site'], v['shape'],
                              {k: v[k] for k in v if k not in ('rule', 'site', 'shape')}))
        explore._merge_stats(stats, tot.stats)
        samples.extend(tot.samples[:1])
        plans.append({'configs': len(configs), 'limits': configs[0].limits, 'policies': len(policies),
                      'deviation_bound': bound, 'executions': tot.execs})
        validated += explore.validate_fresh(tot, res)
    import multiprocessing as mp
    with mp.get_context('fork').Pool(4) as pool:
        for vs_, st_ in pool.map(_cross_program, [(l, 3 if tier == 'quick' else 4) for l in LANGS]):
            explore._merge_stats(stats, st_)
            for v in vs_:
                res.add(Violation(PROP, v['rule'], v['site'], v['shape'],
                                  {k: v[k] for k in v if k not in ('rule', 'site', 'shape')}))
    samples.append({'history': [['P1', 'java'], ['P0', 'kotlin'], ['P0', 'java']],
                    'meaning': 'translate erased program to Java, generated program to Kotlin, then '
                               'generated program to Java on the same long-lived translators'})
    res.coverage = {
        'states': stats.get('bfs_states', 0), 'transitions': stats.get('bfs_transitions', 0),
        'traces_validated_against_impl': stats.get('bfs_transitions', 0),
        'fresh_process_replays': validated,
        'pipeline_executions': execs, 'pipeline_choice_points': trans, 'distinct_program_texts': len(states),
        'samples': samples[:4], 'exploration_plan': plans,
        'exhaustive': capped == 0, 'caps_hit': capped, 'stats': stats,
        'explanation': 'per explored pipeline execution: BFS over translation histories (3 programs x 4 languages) to depth 3 with '
                       'state merging on (translator attributes, program snapshots); every transition ran the real '
                       'translator and was compared with the fresh-translator reference text',
    }
    res.assumptions = ['translator state = instance attributes + non-callable class attributes',
                       'foreign-language translation may raise (counted), but must do so independently of history']
    return res


def replay(path):
    import json
    d = json.load(open(path))['detail']
    if 'history' in d and 'schedule' not in d:
        vs, _ = _cross_program((d['language'], len(d['history'])))
        print('REPLAY', vs)
        return 1 if vs else 0
    canary = make_canary()
    x = explore.run_schedule(d['schedule'])
    vs = Oracle({'canary': canary}).judge(x)
    print('REPLAY', vs)
    return 1 if vs else 0
