"""C12 -- translations are faithful to the program's declarations and annotations.

Deciding step: CTE; for every explored execution the generated, the erased and the overwritten
program are translated to the program's own target language by a fresh translator and each text is scanned
(mc/ref/scanners.py: tokenizer + declaration patterns) and compared, as multisets per name, with an
inventory computed from the IR by an independent reflective walker: balanced brackets/quotes;
exactly the program's classes (plus the documented generated ones: Main, FunctionN); variable and
function-result types printed iff the IR carries them (Kotlin, Scala; Groovy `def`; Java has no
construct for an omitted type); constructor type arguments omitted iff can_infer_type_args;
every string literal present.
"""
import pickle
import re
from collections import Counter

from mc import explore, pipeline
from mc.common import Result, Violation
from mc.pipeline import Config

PROP = 'C12'
SPEC = 'mc.props.c12:Oracle'
LANGS = pipeline.LANGS
GENERATED = re.compile(r'^(Main|Function\d+)$')


def cdiff(a, b, names=None):
    """names whose multiplicity differs between two Counters (restricted to `names` when given: the
    translators add helper declarations of their own -- `y`, `_y`, `x_N`, closures for nested functions)"""
    keys = (set(a) | set(b)) if names is None else set(names)
    return sorted(k for k in keys if a.get(k, 0) != b.get(k, 0))


class Oracle:
    def __init__(self, params):
        pipeline.setup_env()
        self.stats = {'texts_scanned': 0, 'classes': 0, 'variables': 0, 'functions': 0, 'constructor_calls': 0,
                      'strings': 0, 'foreign_exceptions': 0, 'untyped_variables': 0, 'inferred_constructor_calls': 0}

    def judge(self, x):
        from mc.ref import scanners
        if x.error is not None or x.P0_pickle is None:
            return []
        vs = []
        own = x.config.lang
        progs = [('generated', pickle.loads(x.P0_pickle))]
        if x.P1_pickle:
            progs.append(('erased', pickle.loads(x.P1_pickle)))
        if x.P2 is not None and x.ow_flag:
            progs.append(('overwritten', x.P2))
        pipeline.oracle_choices(x)
        for stage, P in progs:
            ir = scanners.ir_inventory(P)
            self.stats['classes'] += sum(ir['classes'].values())
            self.stats['variables'] += sum(ir['var_typed'].values()) + sum(ir['var_untyped'].values())
            self.stats['untyped_variables'] += sum(ir['var_untyped'].values())
            self.stats['functions'] += sum(ir['fun_typed'].values()) + sum(ir['fun_untyped'].values())
            self.stats['constructor_calls'] += sum(ir['new_inferred'].values()) + sum(ir['new_explicit'].values())
            self.stats['inferred_constructor_calls'] += sum(ir['new_inferred'].values())
            self.stats['strings'] += sum(ir['strings'].values())
            for L in (own,):
                try:
                    text = pipeline.translate(pipeline.new_translator(L, 'src.a'), P)
                except Exception:  # noqa
                    self.stats['foreign_exceptions'] += 1
                    continue
                self.stats['texts_scanned'] += 1
                tx = scanners.scan(L, text, ir['generic'])

                def rep(rule, shape, **kw):
                    d = {'rule': rule, 'site': 'src/translators/%s.py' % L, 'shape': shape, 'stage': stage,
                         'program_language': own}
                    d.update(kw)
                    vs.append(d)
                if tx['balance']:
                    rep('unbalanced-text', tx['balance'])
                # classes
                extra = [c for c in tx['classes'] if c not in ir['classes'] and not GENERATED.match(c)]
                wrong = [c for c in ir['classes'] if tx['classes'].get(c, 0) != 1]
                if extra:
                    rep('class-not-in-program', 'text declares a class the program does not have', names=extra[:4])
                if wrong:
                    rep('class-missing-or-duplicated', 'class declared %s times' % sorted({tx['classes'].get(c, 0) for c in wrong}),
                        names=wrong[:4])
                # type parameters
                dcp = cdiff(tx['class_tparams'], ir['class_tparams'], set(ir['class_tparams']))
                if dcp:
                    rep('class-type-parameters-differ', 'declared class type parameters differ', names=[list(x) for x in dcp[:4]])
                dfp = cdiff(tx['fun_tparams'], ir['fun_tparams'], set(ir['fun_tparams']))
                if dfp:
                    rep('function-type-parameters-differ', 'declared function type parameters differ', names=dfp[:4],
                        text_counts={k: tx['fun_tparams'].get(k, 0) for k in dfp[:4]},
                        ir_counts={k: ir['fun_tparams'].get(k, 0) for k in dfp[:4]})
                # strings
                missing = [s for s in ir['strings'] if tx['strings'].get(s, 0) < ir['strings'][s]]
                if missing:
                    rep('string-literal-missing', 'string constant not printed', names=missing[:4])
                # declared types printed iff carried
                if L in ('kotlin', 'scala'):
                    exp_typed = ir['var_typed'] + ir['fields']
                    irnames = set(ir['var_typed']) | set(ir['var_untyped']) | set(ir['fields'])
                    d1 = cdiff(tx['var_typed'], exp_typed, irnames)
                    d2 = cdiff(tx['var_untyped'], ir['var_untyped'], irnames)
                    if d1 or d2:
                        kind = []
                        for nme in d2:
                            kind.append('erased type printed' if tx['var_untyped'].get(nme, 0) < ir['var_untyped'].get(nme, 0)
                                        else 'carried type not printed')
                        rep('variable-type-printed-iff-carried', ', '.join(sorted(set(kind))) or 'typed declarations differ',
                            names=(d2 + d1)[:4])
                    fnames = set(ir['fun_typed']) | set(ir['fun_untyped'])
                    d3 = cdiff(tx['fun_typed'], ir['fun_typed'], fnames)
                    d4 = cdiff(tx['fun_untyped'], ir['fun_untyped'], fnames)
                    if d3 or d4:
                        rep('result-type-printed-iff-carried', 'function result types differ', names=(d3 + d4)[:4])
                elif L == 'groovy':
                    exp = Counter({k: v for k, v in ir['var_untyped'].items()})
                    for k in ir['toplevel_vars']:
                        # top-level variables become fields of Main and always carry a type (by design)
                        exp.pop(k, None)
                    vnames = (set(ir['var_typed']) | set(ir['var_untyped'])) - set(ir['fun_typed']) - set(ir['fun_untyped'])
                    d2 = cdiff(tx['var_untyped'], exp, vnames)
                    if d2:
                        rep('variable-type-printed-iff-carried', 'groovy def/typed declarations differ', names=d2[:4])
                    # local functions are printed as closure variables: `def f = {` iff no (non-void) result type
                    lnames = (set(ir['local_fun_def']) | set(ir['local_fun_closure'])) - set(ir['var_typed']) - set(ir['var_untyped'])
                    d6 = cdiff(tx['var_untyped'], ir['local_fun_def'], lnames)
                    if d6:
                        self.stats['local_functions_compared'] = self.stats.get('local_functions_compared', 0)
                        rep('result-type-printed-iff-carried', 'groovy local function: def / Closure<T> differs from the IR',
                            names=d6[:4], text_counts={k: tx['var_untyped'].get(k, 0) for k in d6[:4]},
                            ir_counts={k: ir['local_fun_def'].get(k, 0) for k in d6[:4]})
                    self.stats['groovy_local_functions'] = self.stats.get('groovy_local_functions', 0) + len(lnames)
                elif L == 'java':
                    if sum(ir['var_untyped'].values()) and not sum(tx['var_untyped'].values()):
                        rep('declared-type-printed-although-erased', 'java prints a type for every variable')
                    if sum(ir['fun_untyped'].values()):
                        rep('declared-type-printed-although-erased', 'java prints a result type for every function')
                # constructor type arguments
                d5 = cdiff(tx['new_inferred'], ir['new_inferred'])
                if d5:
                    rep('constructor-type-arguments-printed-iff-carried', 'inferred constructor calls differ', names=d5[:4],
                        text_counts={k: tx['new_inferred'].get(k, 0) for k in d5[:4]},
                        ir_counts={k: ir['new_inferred'].get(k, 0) for k in d5[:4]})
        out, seen = [], set()
        for v in vs:
            k = (v['rule'], v['site'], v['shape'])
            if k not in seen:
                seen.add(k)
                out.append(v)
        return out


def plan(tier):
    z = (0, 0, 0, 0)
    if tier == 'quick':
        return [
            ([Config(l, z, 'S') for l in LANGS], [('prng', 1), ('prng', 2)], 1, 8),
            ([Config(l, z, lim) for l in LANGS for lim in ('M', 'D')], [('prng', c) for c in range(1, 25)] + ['first', 'alt'], 0, 1),
        ]
    from mc import plans
    return plans.thorough(LANGS, 'medium')


def run(tier, seed, jobs):
    res = Result(PROP, tier, seed, level='model_checking')
    execs = trans = capped = validated = 0
    states = set()
    stats = {}
    samples = []
    plans = []
    from mc import progfam
    # hand-built family (mc/progfam.py): every program, every alternative of the overwriting mutation
    fam = [(progfam.family_configs(pipeline.LANGS, 'core' if tier == 'thorough' else 'mini'), ['first'], 1, 1,
            {'chunk': 6 if tier == 'quick' else 30, 'run_kw': {'deviate_stages': ('overwrite',)}})]
    for part in fam + [tuple(p_) + ({},) for p_ in plan(tier)]:
        configs, policies, bound, nslices, extra = part
        tot = explore.explore(configs, policies, bound, SPEC, {}, jobs, seed, nslices,
                              run_kw=extra.get('run_kw'), chunk=extra.get('chunk'))
        execs += tot.execs
        trans += tot.transitions
        states |= tot.states
        capped += tot.capped
        res.harness_errors.extend(tot.errors)
        for v in tot.violations:
            res.add(Violation(PROP, v['rule'], v['site'], v['shape'],
                              {k: v[k] for k in v if k not in ('rule', 'site', 'shape')}))
        explore._merge_stats(stats, tot.stats)
        samples.extend(tot.samples[:1])
        plans.append({'configs': len(configs), 'limits': configs[0].limits, 'policies': len(policies),
                      'deviation_bound': bound, 'executions': tot.execs})
        validated += explore.validate_fresh(tot, res)
    res.coverage = {
        'states': len(states), 'transitions': trans, 'traces_validated_against_impl': validated,
        'executions': execs, 'samples': samples[:2], 'exploration_plan': plans,
        'exhaustive': capped == 0, 'caps_hit': capped, 'inventory': stats,
        'explanation': 'states = distinct program texts; transitions = choice points answered; inventory.* counts the '
                       'declarations compared between IR and text over all scanned texts',
    }
    return res


def replay(path):
    import json
    d = json.load(open(path))['detail']
    x = explore.run_schedule(d['schedule'])
    vs = Oracle({}).judge(x)
    for v in vs:
        print('REPLAY', v['rule'], v['site'], v['shape'], v.get('names'))
    return 1 if vs else 0
