"""C14 -- compiler diagnostics are attributed to the right programs.

Deciding step: exhaustive enumeration of the outputs of a per-compiler output grammar
(mc/ref/output_grammar.py): batches of <= 3 files, <= 2 errors and <= 1 warning per file, every
distinct ORDER of the diagnostics, message variants, notes / summary lines on and off, missing
final newline, user filter patterns, crash stack trace appended / prepended (Groovy: bare
StackOverflowError), over path alphabets that include every character tempfile can produce and a
TMPDIR containing '-' and '.'.  The real analyze_compiler_output of each adapter runs on every
text; ground truth is known by construction.  (Real javac output is bound to the Java adapter by
the C02/C04 checks through the compile server.)
"""
import itertools
import multiprocessing as mp
import re

from mc import common
from mc.common import Result, Violation
from mc.ref import output_grammar as og

PROP = 'C14'
LANGS = ('java', 'kotlin', 'groovy', 'scala')

DIRS = {
    'tempfile': ['/tmp/tmpab_1x9z'],                 # tempfile alphabet: [a-z0-9_]
    'tmpdir-special': ['/var/tmp/py-test.d/tmpq0_a'],   # TMPDIR chosen by the user
}
PACKAGES = ['alpha', 'kotlinx', 'b']


def compiler_for(lang, filters):
    from src.compilers.java import JavaCompiler
    from src.compilers.kotlin import KotlinCompiler
    from src.compilers.groovy import GroovyCompiler
    from src.compilers.scala import ScalaCompiler
    cls = {'java': JavaCompiler, 'kotlin': KotlinCompiler, 'groovy': GroovyCompiler, 'scala': ScalaCompiler}[lang]
    return cls('/x/src', filters)


def judge(lang, text, truth, filters, crash, files):
    """-> list of (rule, description)"""
    c = compiler_for(lang, filters)
    try:
        failed, matches = c.analyze_compiler_output(text)
    except Exception as e:  # noqa
        return [('analysis-raises', '%s: %s' % (type(e).__name__, e))]
    out = []
    # expected after filtering
    exp = {}
    for f, kind, head, dtext in truth['diags']:
        if kind != 'error':
            continue
        if any(re.search(p, dtext) for p in filters):
            continue
        exp.setdefault(f, []).append(dtext)
    if crash:
        if not c.crash_msg:
            out.append(('crash-not-recognised', 'stack trace present but crash_msg is None'))
        if failed:
            out.append(('crash-with-diagnostics', 'crash output also returned diagnostics'))
        return out
    if c.crash_msg:
        out.append(('diagnostics-classified-as-crash', 'no stack trace in the output but crash_msg is set'))
        return out
    got = {k: list(v) for k, v in (failed or {}).items()}
    if set(got) != set(exp):
        extra = sorted(set(got) - set(exp))
        missing = sorted(set(exp) - set(got))
        if missing and extra and all(any(m.endswith(e) for m in missing) for e in extra):
            out.append(('file-key-truncated', 'returned %s for %s' % (extra, missing)))
        else:
            if extra:
                out.append(('error-attributed-to-wrong-file', 'extra keys %s' % extra))
            if missing:
                out.append(('error-dropped', 'missing keys %s' % missing))
        return out
    for f in exp:
        if len(got[f]) != len(exp[f]):
            out.append(('error-count', '%s: %d messages for %d error diagnostics' % (f, len(got[f]), len(exp[f]))))
            continue
        for m, d in zip(got[f], exp[f]):
            # the adapters keep only part of a diagnostic (and the Scala pattern may run on into
            # the summary line): the message must BEGIN inside the diagnostic it is attributed to
            if not isinstance(m, str) or m.strip() == '' or m.strip().splitlines()[0].strip() not in d:
                out.append(('message-not-from-diagnostic', '%r is not part of %r' % (m, d[:80])))
                break
    return out


def _work(arg):
    lang, dirkind, shapes, tier = arg
    common.import_repo()
    found = {}
    n = 0
    nontrivial = 0
    dirs = DIRS[dirkind]
    nmsg = len(og.MESSAGES[lang])
    has_warn = og.WARNING_MESSAGES[lang] is not None
    variants = list(range(nmsg + 1)) if tier == 'thorough' else [0, nmsg]
    for shape in shapes:
        if not has_warn and any(w for _, w in shape):
            continue
        files = og.paths(lang, dirs, PACKAGES)[:len(shape)]
        diags = []
        for fi, (e, w) in enumerate(shape):
            diags += [(fi, 'error')] * e + [(fi, 'warning')] * w
        for order in og.orders(diags):
            nerr = sum(1 for _, k in order if k == 'error')
            for variant in variants:
                # groovyc always closes its error list with "N error(s)"
                for with_summary in ((True,) if lang == 'groovy' else (True, False)):
                    for with_notes in ((True, False) if tier == 'thorough' else (False,)):
                        crashes = [None, 'trace'] + (['trace-first'] if tier == 'thorough' else [])
                        crashes += ['trace:%d' % i for i in range(1, len(og.CRASH_VARIANTS[lang]))]
                        if lang == 'groovy' and nerr == 0:
                            crashes.append('stackoverflow')
                        for crash in crashes:
                            for endnl in ((True, False) if crash is None else (True,)):
                                text, truth = og.render(lang, files, order, variant, with_summary, with_notes,
                                                        crash, endnl)
                                fsets = [[]]
                                if crash is None and nerr:
                                    fsets.append([og.filter_patterns_for(lang, 0)])
                                    if nmsg > 1 and nerr > 1:
                                        fsets.append([og.filter_patterns_for(lang, 0), og.filter_patterns_for(lang, 1)])
                                        fsets.append([og.filter_patterns_for(lang, 1), og.filter_patterns_for(lang, 0)])
                                for filters in fsets:
                                    n += 1
                                    if nerr:
                                        nontrivial += 1
                                    for rule, desc in judge(lang, text, truth, filters, bool(crash), files):
                                        shape_s = '%s adapter, %s paths%s%s' % (
                                            lang, dirkind, ', with filter' if filters else '',
                                            '' if endnl else ', no final newline')
                                        key = (rule, shape_s)
                                        if key not in found:
                                            found[key] = [0, {'output': text, 'filters': filters, 'description': desc,
                                                              'files': files}]
                                        found[key][0] += 1
    return n, nontrivial, found


def run(tier, seed, jobs):
    res = Result(PROP, tier, seed, level='exploration')
    if tier == 'quick':
        shapes = list(og.shapes(3, 2, 1, 4))
    else:
        shapes = list(og.shapes(3, 2, 1, 5))
    tasks = []
    for lang in LANGS:
        for dirkind in DIRS:
            chunk = max(1, len(shapes) // 12)
            for i in range(0, len(shapes), chunk):
                tasks.append((lang, dirkind, shapes[i:i + chunk], tier))
    tasks = common.rotate(tasks, seed)
    n = nontrivial = 0
    found = {}
    with mp.get_context('fork').Pool(jobs) as pool:
        for a, b, f in pool.imap_unordered(_work, tasks):
            n += a
            nontrivial += b
            for k, (cnt, det) in f.items():
                if k not in found:
                    found[k] = [0, det]
                elif len(det['output']) < len(found[k][1]['output']):
                    found[k][1] = det
                found[k][0] += cnt
    for (rule, shape), (cnt, det) in sorted(found.items()):
        det = dict(det)
        det['instances'] = cnt
        res.add(Violation(PROP, rule, 'src/compilers', shape, det))
    sample_text, _ = og.render('java', og.paths('java', DIRS['tempfile'], PACKAGES)[:2],
                               [(0, 'error'), (1, 'warning'), (1, 'error')], 0, True, False, None)
    res.coverage = {
        'evaluations': n, 'distinct_nontrivial': nontrivial,
        'rule': 'every output of the per-compiler grammar within the bounds (files<=3, errors/file<=2, warnings/file<=1, '
                'total diagnostics<=%d, all distinct orders, message variants, summary/notes/newline/filter/crash options, '
                '2 path alphabets); each (text, filter set) is one distinct evaluation; non-trivial = contains at least '
                'one error diagnostic' % (4 if tier == 'quick' else 5),
        'batch_shapes': len(shapes), 'exhaustive': True,
        'samples': [{'lang': 'java', 'output': sample_text}],
    }
    res.assumptions = ['kotlinc, groovyc and scalac are not installed: their output grammars follow the documented formats',
                       'user filter patterns cover a whole diagnostic (header line / block)']
    return res


def replay(path):
    import json
    common.import_repo()
    d = json.load(open(path))
    det = d['detail']
    lang = d['shape'].split(' ')[0]
    c = compiler_for(lang, det['filters'])
    failed, matches = c.analyze_compiler_output(det['output'])
    print('REPLAY crash_msg set:', bool(c.crash_msg), 'failed:', dict(failed or {}))
    print(det['description'])
    return 1
