"""C03 -- type erasure only removes inferable type information.

Deciding step: CTE; for every explored execution, with 1 and 2 consecutive erasures:
 (1) the structural diff of the program before/after TypeErasure.transform() may contain only
     var_type -> None, ret_type -> None, can_infer_type_args False -> True (the analysis' cache
     attribute FunctionCall.type_parameters is whitelisted: not a node, name, modifier or recorded
     type and unobservable in any translation); everything else must be identical;
 (2) the reference checker in INFERENCE mode (omitted declared types are replaced by the
     synthesised type of the initializer / body, and that type is used at every later use) finds no
     definite error, incl. the Kotlin rule for omitted constructor type arguments;
 (3) Java: javac accepts the translation of the erased program;
 (4) every other subset of omittable annotations the mutation may choose: for each analysed
     function with <= N omittable nodes EVERY combination accepted by is_combination_feasible is
     applied in place, judged by (2) (and (3) for Java), and undone.
"""
import itertools
import pickle

from mc import explore, pipeline, snapshot, irwalk
from mc.common import Result, Violation
from mc.pipeline import Config
from mc.props import c01

PROP = 'C03'
SPEC = 'mc.props.c03:Oracle'

ALLOWED_ATTRS = ('var_type', 'ret_type', '_can_infer_type_args')


def classify_diff(d, f0, f1):
    """-> list of (path, why) for differences the property does not allow"""
    bad = []
    for path, a, b in d:
        comps = [c for c in path if isinstance(c, str)]
        if 'type_parameters' in path:
            i = path.index('type_parameters')
            owner = f1.get(path[:i]) or f0.get(path[:i])
            if owner == ('OBJ', 'FunctionCall'):
                continue       # cache of the dependency analysis (see module docstring)
        if 'var_type' in comps or 'ret_type' in comps:
            # the whole subtree under an omitted annotation disappears; it must become None
            i = max(j for j, c in enumerate(path) if c in ('var_type', 'ret_type'))
            if len(path) == i + 1 and b is not None:
                bad.append((path, 'annotation changed to %r instead of being removed' % (b,)))
            continue
        if comps and comps[-1] == '_can_infer_type_args':
            if not (a is False and b is True):
                bad.append((path, 'can_infer_type_args %r -> %r' % (a, b)))
            continue
        bad.append((path, '%r -> %r' % (a, b)))
    return bad


def _shape(a):
    """root-cause oriented shape of an inference alarm: the position kind; for an uninferable type argument also
    whether the call sits in a branch of a conditional (a different cause: the conditional's recorded type stands
    in for the expected type in the dependency graph)"""
    s = 'position kind: %s' % a[0]
    if a[0] == 'kotlin-cannot-infer-type-argument' and '[in conditional branch]' in str(a[4]):
        s += ' (call in a conditional branch)'
    return s


class Oracle:
    def __init__(self, params):
        pipeline.setup_env()
        self.powerset_max = params.get('powerset_max', 4)
        self.use_javac = params.get('javac', True)
        self.javac_in_powerset = params.get('javac_in_powerset', False)
        self.srv = None
        self.stats = {'programs': 0, 'diff_paths': 0, 'omitted_var_types': 0, 'omitted_ret_types': 0,
                      'omitted_type_args': 0, 'inference_positions': 0, 'skipped_unknown': 0, 'javac_compiled': 0,
                      'powerset_functions': 0, 'powerset_combinations_judged': 0, 'powerset_skipped_large': 0}
        self._hook_state = {}
        self.hooks = {'after_gen': self._after_gen}
        self._patch()

    # capture (type graph, omittable nodes) per analysed function
    def _patch(self):
        from src.transformations import type_erasure as te
        if getattr(te.TypeErasure, '_verif_patched', False):
            te.TypeErasure._verif_sink = self
            return
        orig = te.TypeErasure.visit_func_decl
        from src.analysis import type_dependency_analysis as tda

        def visit_func_decl(slf, node):
            sink = te.TypeErasure._verif_sink
            calls = []
            real = tda.is_combination_feasible

            def spy(type_graph, combination):
                r = real(type_graph, combination)
                calls.append((type_graph, combination, r))
                return r
            tda.is_combination_feasible = spy
            try:
                r = orig(slf, node)
            finally:
                tda.is_combination_feasible = real
            if sink is not None:
                sink._functions.append((node, calls))
            return r
        te.TypeErasure.visit_func_decl = visit_func_decl
        te.TypeErasure._verif_patched = True
        te.TypeErasure._verif_sink = self

    def _after_gen(self, x):
        self._functions = []

    def finish_unit(self):
        if self.srv is not None:
            self.srv.close()

    def _javac_ok(self, text):
        from mc import javac
        if self.srv is None:
            self.srv = javac.JavacServer()
        path = self.srv.write_program(text, 'a')
        ok, diags, _ = self.srv.compile([path])
        self.srv.remove(path)
        self.stats['javac_compiled'] += 1
        errs = [d for d in diags if d.kind in ('ERROR', 'CRASH')]
        return (ok and not errs), errs

    def _infer_alarms(self, P, lang):
        from mc.ref import rtc
        ck = rtc.Checker(P)
        ck.infer = True
        ck.run()
        self.stats['inference_positions'] += ck.stats.get('positions', 0)
        self.stats['skipped_unknown'] += ck.stats.get('skipped', 0) + sum(
            v for k, v in ck.stats.items() if k.startswith('unknown'))
        return [a for a in ck.alarms if a[0] not in c01.SCOPE_RULES]

    def judge(self, x):
        vs = []
        if x.error is not None or x.P0_pickle is None or x.P1 is None:
            return vs
        lang = x.config.lang
        self.stats['programs'] += 1
        P0 = pickle.loads(x.P0_pickle)
        from mc.props.c13 import program_flat
        f0 = program_flat(P0)       # the value-keyed part of Context._namespaces is not compared (see C13)
        f1 = program_flat(x.P1)
        d = snapshot.diff(f0, f1)
        self.stats['diff_paths'] += len(d)
        for path, a, b in d:
            if path and path[-1] == 'var_type' and b is None:
                self.stats['omitted_var_types'] += 1
            elif path and path[-1] == 'ret_type' and b is None:
                self.stats['omitted_ret_types'] += 1
            elif path and path[-1] == '_can_infer_type_args' and b is True:
                self.stats['omitted_type_args'] += 1
        bad = classify_diff(d, f0, f1)
        if bad:
            attrs = sorted({str([c for c in p if isinstance(c, str)][-1]) for p, _ in bad})
            vs.append({'rule': 'erasure-changes-more-than-annotations', 'site': 'src/transformations/type_erasure.py',
                       'shape': 'changed attribute(s): ' + ', '.join(attrs[:4]),
                       'paths': [irwalk.fmt_path(p) + ': ' + why for p, why in bad[:5]]})
        # (2) inference mode
        base_alarms = {(a[0], a[1]) for a in self._infer_alarms(P0, lang)}
        for a in self._infer_alarms(x.P1, lang):
            if (a[0], a[1]) in base_alarms:
                continue
            vs.append({'rule': 'erased-program-ill-typed', 'site': 'src/transformations/type_erasure.py',
                       'shape': _shape(a),
                       'path': a[1], 'expected': a[2], 'found': a[3], 'extra': str(a[4])[:300]})
        # (3) javac.  A hand-built family program is only judged by javac when its unmutated translation compiles
        # (the Java translator's type hints do not cover every hand-built shape; C02 is about generated programs)
        self._javac_here = self.use_javac
        if lang == 'java' and self.use_javac and x.config.family_index() is not None and x.T0:
            ok0, _ = self._javac_ok(x.T0)
            if not ok0:
                self.stats['family_java_baseline_rejected'] = self.stats.get('family_java_baseline_rejected', 0) + 1
                self._javac_here = False
        if lang == 'java' and self._javac_here and x.T1:
            ok, errs = self._javac_ok(x.T1)
            if not ok:
                vs.append({'rule': 'javac-rejects-erased-program', 'site': 'javac', 'shape': errs[0].code,
                           'message': errs[0].msg, 'line': errs[0].line})
        # (4) every other feasible subset
        vs.extend(self._powerset(x, lang))
        # dedupe
        out, seen = [], set()
        for v in vs:
            k = (v['rule'], v['shape'])
            if k not in seen:
                seen.add(k)
                out.append(v)
        return out

    def _powerset(self, x, lang):
        from src.analysis import type_dependency_analysis as tda
        from copy import copy
        vs = []
        P = x.P1
        for node, calls in getattr(self, '_functions', []):
            if not calls:
                continue
            type_graph = calls[0][0]
            singles = [c[1][0] for c in calls if len(c[1]) == 1 and c[2]]
            omittable = []
            for n in singles:
                if n not in omittable:
                    omittable.append(n)
            if not omittable:
                continue
            if len(omittable) > self.powerset_max:
                self.stats['powerset_skipped_large'] += 1
                continue
            self.stats['powerset_functions'] += 1
            # remember the state the real erasure left
            saved = []
            for n in omittable:
                if isinstance(n, tda.DeclarationNode):
                    saved.append((n, getattr(n.decl, 'var_type', None), getattr(n.decl, 'ret_type', None)))
                else:
                    saved.append((n, n.t.can_infer_type_args, None))
            originals = getattr(self, '_orig_types', None)
            for r in range(1, len(omittable) + 1):
                for comb in itertools.combinations(omittable, r):
                    # the graph handed to the check is a copy of the function's full type graph, as in the tool
                    g = copy(self._full_graph(node, calls))
                    if not tda.is_combination_feasible(g, comb):
                        continue
                    self._apply(omittable, comb, x)
                    self.stats['powerset_combinations_judged'] += 1
                    try:
                        alarms = self._infer_alarms(P, lang)
                        if alarms:
                            a = alarms[0]
                            vs.append({'rule': 'feasible-subset-ill-typed', 'site': 'src/analysis/type_dependency_analysis.py:is_combination_feasible',
                                       'shape': _shape(a),
                                       'function': node.name, 'omitted': [str(n) for n in comb], 'path': a[1],
                                       'expected': a[2], 'found': a[3]})
                        if lang == 'java' and self._javac_here and self.javac_in_powerset:
                            pipeline.oracle_choices(x)
                            text = pipeline.translate(pipeline.new_translator('java'), P)
                            ok, errs = self._javac_ok(text)
                            if not ok:
                                vs.append({'rule': 'feasible-subset-rejected-by-javac', 'site': 'src/analysis/type_dependency_analysis.py:is_combination_feasible',
                                           'shape': errs[0].code, 'function': node.name, 'omitted': [str(n) for n in comb],
                                           'message': errs[0].msg})
                    finally:
                        self._restore(saved)
        return vs

    def _full_graph(self, node, calls):
        # the first call's graph object is the function's type graph (singles are checked on it directly)
        return calls[0][0]

    def _apply(self, omittable, comb, x):
        from src.analysis import type_dependency_analysis as tda
        P0 = getattr(self, '_p0_types', None)
        for n in omittable:
            chosen = n in comb
            if isinstance(n, tda.DeclarationNode):
                d = n.decl
                if hasattr(d, 'var_type') and not hasattr(d, 'ret_type'):
                    d.var_type = None if chosen else d.inferred_type
                elif hasattr(d, 'ret_type'):
                    d.ret_type = None if chosen else d.inferred_type
            else:
                n.t.can_infer_type_args = bool(chosen)

    def _restore(self, saved):
        from src.analysis import type_dependency_analysis as tda
        for n, a, b in saved:
            if isinstance(n, tda.DeclarationNode):
                d = n.decl
                if hasattr(d, 'var_type') and not hasattr(d, 'ret_type'):
                    d.var_type = a
                elif hasattr(d, 'ret_type'):
                    d.ret_type = b
            else:
                n.t.can_infer_type_args = a


def family_part(langs, tier='thorough'):
    """every program of the hand-built family (mc/progfam.py), one erasure and two erasures"""
    from mc import progfam
    z = (0, 0, 0, 0)
    cfgs = [Config(l, z, 'F:%d' % i) for l in langs for i in range(progfam.size())]
    if tier == 'quick':
        return [(cfgs, ['first'], 0, 1, 1, 45)]
    return [(cfgs, ['first'], 0, 1, 1, 45), (cfgs, ['first'], 0, 1, 2, 45)]


def plan(tier):
    langs = pipeline.LANGS
    z = (0, 0, 0, 0)
    if tier == 'quick':
        return family_part(langs, tier) + [
            ([Config(l, s, 'S') for l in langs for s in (z, (1, 1, 1, 1))], [('prng', 1), ('prng', 2)], 1, 8, 1),
            ([Config(l, z, 'S') for l in langs], [('prng', 3)], 0, 1, 2),
            ([Config(l, z, lim) for l in langs for lim in ('M', 'D')], [('prng', c) for c in range(1, 25)] + ['first', 'alt'], 0, 1, 1),
        ]
    from mc import plans
    out = [(c, p, b, n, 1) for c, p, b, n in plans.thorough(langs, 'heavy')]
    out.append(([Config(l, z, 'S') for l in langs], [('prng', 1), ('prng', 2)], 1, 8, 2))
    return family_part(langs) + out


def run(tier, seed, jobs):
    res = Result(PROP, tier, seed, level='model_checking')
    execs = trans = capped = validated = 0
    states = set()
    stats = {}
    samples = []
    plans = []
    pmax = 4 if tier == 'quick' else 5
    for part in plan(tier):
        configs, policies, bound, nslices, n_er = part[:5]
        chunk = part[5] if len(part) > 5 else None
        kw = {'stages': ('gen', 'erase'), 'n_erasures': n_er}
        params = {'powerset_max': pmax, 'javac_in_powerset': tier == 'thorough'}
        tot = explore.explore(configs, policies, bound, SPEC, params, jobs, seed, nslices, run_kw=kw, chunk=chunk)
        execs += tot.execs
        trans += tot.transitions
        states |= tot.states
        capped += tot.capped
        res.harness_errors.extend(tot.errors)
        for v in tot.violations:
            res.add(Violation(PROP, v['rule'], v['site'], v['shape'],
                              {k: v[k] for k in v if k not in ('rule', 'site', 'shape')}))
        explore._merge_stats(stats, tot.stats)
        samples.extend(tot.samples[:1])
        plans.append({'configs': len(configs), 'limits': configs[0].limits, 'policies': len(policies),
                      'deviation_bound': bound, 'erasures': n_er, 'executions': tot.execs})
        validated += explore.validate_fresh(tot, res, kw, SPEC, params)
    res.coverage = {
        'states': len(states), 'transitions': trans, 'traces_validated_against_impl': validated,
        'executions': execs, 'samples': samples[:2], 'exploration_plan': plans,
        'exhaustive': capped == 0, 'caps_hit': capped, 'erasure': stats, 'powerset_max_omittable': pmax,
        'explanation': 'states = distinct program texts; transitions = choice points answered; erasure.* counts omitted '
                       'annotations seen, inference positions judged and the extra feasible subsets applied and judged',
    }
    return res


def replay(path):
    import json
    d = json.load(open(path))['detail']
    o = Oracle({})
    x = explore.run_schedule(d['schedule'], stages=('gen', 'erase'), hooks=o.hooks)
    vs = o.judge(x)
    o.finish_unit()
    for v in vs:
        print('REPLAY', v['rule'], v['shape'], v.get('path'))
    return 1 if vs else 0
