"""C07 -- instantiating a generic class substitutes everywhere and mutates nothing.

Three exhaustive parts:
 (a) SSE: every class table x every generic class x every argument list over the table's ground
     types (plain, projected, star, nested): the supertypes of TypeConstructor.new(args), read
     structurally and followed transitively, must equal the reference substitution of the
     declared supertypes; substitute_type with the empty map is the identity; a ground map
     leaves no type variable.
 (b) HBFS: all operation histories of length <= 2 (thorough: 3 on a reduced alphabet) over SHARED
     type objects -- new, substitute_type, to_variance_free, to_type_variable_free, get_supertypes,
     is_subtype, ClassDeclaration.get_type, find_subtypes.  After every step the by-value snapshot
     of every object that existed before the step is unchanged and every earlier result still has
     the value it had when it was returned.
 (c) in situ: around every TypeConstructor.new / substitute_type call of explored pipeline
     executions (CTE), receiver and arguments are pickled before and after: byte-identical.
"""
import itertools
import multiprocessing as mp
import pickle

from mc import common, universe, snapshot, explore, pipeline
from mc.common import Result, Violation
from mc.ref import rsub, conv as rconv
from mc.props.c10 import subst_args
from mc.pipeline import Config

PROP = 'C07'
SPEC = 'mc.props.c07:InSitu'


# ---- (a) substitution against the reference --------------------------------------------------------

def has_var(t):
    if t is None:
        return False
    if t[0] == 'v':
        return True
    if t[0] == 'c':
        return any(a[0] != '*' and has_var(a[1]) for a in t[2])
    return False


def check_substitution(sk, lang, tier, found, stats):
    from src.ir import BUILTIN_FACTORIES, types as tp
    factory = BUILTIN_FACTORIES[lang]
    tb, conv = universe.realise(sk, factory)
    cv = rconv.TermConv(tb, {type(v): k for k, v in conv.roles.items()})
    atoms = [universe.C('Number'), universe.C('Integer'), universe.C('P'), universe.C('Q')]
    U = universe.enumerate_types(tb, sk, atoms, 2 if tier == 'thorough' else 1, cap=400)
    level0 = universe.enumerate_types(tb, sk, atoms, 1, cap=120)
    for t in U:
        if t[0] != 'c' or not t[2]:
            continue
        try:
            it = conv(t)
        except Exception as e:  # noqa
            rec(found, 'new-raises', type(e).__name__, sk, lang, t, str(e)[:120])
            continue
        stats['instantiations'] = stats.get('instantiations', 0) + 1
        # supertypes, transitively, read from the attribute `supertypes`
        info = tb.cls[t[1]]
        m = {p[0]: a for p, a in zip(info.params, t[2])}
        want = [subst_args(s, m) for s in info.supers]
        got = [cv.term(s) for s in it.supertypes]
        if any(w is None for w in want):
            # a projection substituted into a projected position: not expressible as a term (C06's
            # recorded capture finding); nothing to compare with
            stats['skipped_projection_into_projection'] = stats.get('skipped_projection_into_projection', 0) + 1
            continue
        if got != want:
            rec(found, 'supertypes-not-substituted', 'direct supertypes of %s' % rsub.abstract(t), sk, lang, t,
                'got %s, expected %s' % ([rsub.show(g) if g else g for g in got], [rsub.show(w) if w else w for w in want]))
        # transitive: each supertype object's own supertypes
        seen = 0
        stack = list(it.supertypes)
        while stack and seen < 50:
            s = stack.pop()
            seen += 1
            st = cv.term(s)
            # the constructor a supertype object carries must be the class as THIS table declares it (names and
            # declaration-site variances of its parameters): a constructor left over from an earlier table or program
            # with the same class names (state shared between instantiations) shows here
            tc_ = getattr(s, 't_constructor', None)
            dd_ = conv.impl.get(getattr(s, 'name', None)) if tc_ is not None else None
            if dd_ is not None:
                stats['constructor_identity_checks'] = stats.get('constructor_identity_checks', 0) + 1
                sig_a = [(p_.name, p_.variance.value) for p_ in tc_.type_parameters]
                sig_b = [(p_.name, p_.variance.value) for p_ in dd_.type_parameters]
                if sig_a != sig_b:
                    rec(found, 'supertype-carries-a-stale-constructor', 'supertypes of %s' % rsub.abstract(t), sk, lang, t,
                        'at %s: constructor parameters %s, the table declares %s' % (rsub.show(st), sig_a, sig_b))
            if st[0] == 'c' and st[2]:
                sinfo = tb.cls[st[1]]
                sm = {p[0]: a for p, a in zip(sinfo.params, st[2])}
                w2 = [subst_args(x, sm) for x in sinfo.supers]
                g2 = [cv.term(x) for x in s.supertypes]
                if any(w is None for w in w2):
                    continue
                if g2 != w2:
                    rec(found, 'supertypes-not-substituted', 'transitive supertypes of %s' % rsub.abstract(t), sk, lang, t,
                        'at %s: got %s, expected %s' % (rsub.show(st), [rsub.show(g) for g in g2], [rsub.show(w) for w in w2]))
            stack.extend(getattr(s, 'supertypes', []))
        if any(has_var(w) for w in got if w):
            rec(found, 'type-variable-left', 'supertypes of %s' % rsub.abstract(t), sk, lang, t, str([rsub.show(g) for g in got]))
        # the constructor itself must still carry its declared (unsubstituted) supertypes
        decl = conv.impl[t[1]]
        dgot = [cv.term(s) for s in decl.supertypes]
        if dgot != list(info.supers):
            rec(found, 'declaration-modified', 'declared supertypes of the class after new()', sk, lang, t,
                'now %s' % [rsub.show(g) for g in dgot])
        # substitute_type with the empty map is the identity
        r = tp.substitute_type(it, {})
        if cv.term(r) != t or r != it:
            rec(found, 'empty-substitution-not-identity', rsub.abstract(t), sk, lang, t, rsub.show(cv.term(r)))
        stats['empty_substitutions'] = stats.get('empty_substitutions', 0) + 1
    # open patterns with nested wildcards substituted by ground maps
    from src.ir import types as tp2
    X = tp2.TypeParameter('X', tp2.Invariant, None)
    Xt = ('v', 'X', None)
    ones = [n for n, ps, _ in sk.classes if len(ps) == 1]
    for c1 in ones:
        for c2 in ones:
            for pat in (('c', c1, (('out', ('c', c2, (('t', Xt),))),)), ('c', c1, (('in', ('c', c2, (('t', Xt),))),)),
                        ('c', c1, (('t', ('c', c2, (('out', Xt),))),)), ('c', c1, (('t', ('c', c2, (('t', Xt),))),))):
                try:
                    ipat = conv(pat, {'X': X})
                except Exception:  # noqa
                    continue
                for g in level0[:5]:
                    try:
                        r = tp.substitute_type(ipat, {X: conv(g)})
                    except Exception as e:  # noqa
                        rec(found, 'substitute-raises', type(e).__name__, sk, lang, pat, str(e)[:120])
                        continue
                    stats['ground_substitutions'] = stats.get('ground_substitutions', 0) + 1
                    want = subst_args(pat, {'X': ('t', g)})
                    if cv.term(r) != want:
                        rec(found, 'ground-substitution-wrong', 'pattern %s' % rsub.abstract(pat), sk, lang, pat,
                            'got %s expected %s' % (rsub.show(cv.term(r)), rsub.show(want)))
    # open types over the class parameters substituted by ground maps
    for name, params, supers in sk.classes:
        if not params:
            continue
        c = conv.impl[name]
        open_t = c.new(list(c.type_parameters))
        open_term = ('c', name, tuple(('t', ('v', p[0], p[2])) for p in params))
        for args in itertools.product(level0[:6], repeat=len(params)):
            mp_ = {tpar: conv(a) for tpar, a in zip(c.type_parameters, args)}
            try:
                r = tp.substitute_type(open_t, mp_)
            except Exception as e:  # noqa
                rec(found, 'substitute-raises', type(e).__name__, sk, lang, open_term, str(e)[:120])
                continue
            stats['ground_substitutions'] = stats.get('ground_substitutions', 0) + 1
            rt = cv.term(r)
            want = ('c', name, tuple(('t', a) for a in args))
            if rt != want:
                rec(found, 'ground-substitution-wrong', 'open instantiation of a %d-parameter class' % len(params), sk, lang,
                    open_term, 'got %s expected %s' % (rsub.show(rt), rsub.show(want)))
            elif has_var(rt) or any(has_var(cv.term(s)) for s in r.supertypes):
                rec(found, 'type-variable-left', 'ground substitution', sk, lang, open_term, rsub.show(rt))


def rec(found, rule, shape, sk, lang, t, note):
    k = (rule, shape)
    size = len(rsub.show(t))
    det = {'table': sk.label, 'language': lang, 'type': rsub.show(t), 'note': note,
           'classes': [[n, [[p[0], p[1], rsub.show(p[2])] for p in ps], [rsub.show(s) for s in su]] for n, ps, su in sk.classes]}
    e = found.get(k)
    if e is None:
        found[k] = [1, size, det]
    else:
        e[0] += 1
        if size < e[1]:
            e[1], e[2] = size, det


# ---- (b) aliasing histories ---------------------------------------------------------------------------

def aliasing_world(lang):
    """shared objects + operation alphabet"""
    from src.ir import ast, types as tp, type_utils as tu, BUILTIN_FACTORIES
    f = BUILTIN_FACTORIES[lang]
    Number, Integer = f.get_number_type(), f.get_integer_type()
    P = tp.SimpleClassifier('P', [])
    Q = tp.SimpleClassifier('Q', [P])
    TA = tp.TypeParameter('T', tp.Invariant, None)
    A = tp.TypeConstructor('A', [TA], [])
    TG = tp.TypeParameter('T', tp.Covariant, Number)
    G = tp.TypeConstructor('G', [TG], [])
    T1 = tp.TypeParameter('T1', tp.Invariant, None)
    T2 = tp.TypeParameter('T2', tp.Invariant, T1)
    B = tp.TypeConstructor('B', [T1, T2], [A.new([G.new([Integer])]), ])
    TC = tp.TypeParameter('X', tp.Invariant, None)
    Cc = tp.TypeConstructor('C', [TC], [A.new([TC])])
    W_out = tp.WildCardType(Number, tp.Covariant)
    W_in = tp.WildCardType(Integer, tp.Contravariant)
    W_star = tp.WildCardType()
    decl = ast.ClassDeclaration('C', [ast.SuperClassInstantiation(A.new([TC]), [])], 0, [], [], False, [TC])
    base = {'Number': Number, 'Integer': Integer, 'P': P, 'Q': Q, 'A': A, 'G': G, 'B': B, 'C': Cc, 'TA': TA, 'T1': T1,
            'TC': TC, 'W_out': W_out, 'W_in': W_in, 'W_star': W_star, 'declC': decl}
    return f, base


def operations(f, objs):
    """all operations applicable to the current objects: (label, thunk)"""
    from src.ir import types as tp, type_utils as tu, ast
    ops = []
    names = list(objs)
    cons = [n for n in names if isinstance(objs[n], tp.TypeConstructor)]
    plain = [n for n in names if isinstance(objs[n], tp.Type) and not isinstance(objs[n], tp.TypeConstructor)]
    args1 = [n for n in plain if not isinstance(objs[n], tp.TypeParameter) or True]
    for c in cons:
        n = len(objs[c].type_parameters)
        for combo in itertools.product(args1, repeat=n):
            if n == 2 and combo[0] != combo[1] and not (combo[0] in ('Integer', 'P', 'W_out') and combo[1] in ('Integer', 'Q', 'T1', 'W_in')):
                continue
            ops.append(('%s.new(%s)' % (c, ','.join(combo)), (lambda c=c, combo=combo: objs[c].new([objs[x] for x in combo]))))
    params = [n for n in names if isinstance(objs[n], tp.TypeParameter)]
    for t in plain:
        o = objs[t]
        if isinstance(o, tp.ParameterizedType):
            ops.append(('%s.to_variance_free()' % t, lambda o=o: o.to_variance_free()))
            ops.append(('%s.to_type_variable_free()' % t, lambda o=o: o.to_type_variable_free(f)))
            ops.append(('%s.get_supertypes()' % t, lambda o=o: sorted(map(str, o.get_supertypes()))))
            for p in params:
                for a in ('Integer', 'W_out', 'P'):
                    ops.append(('substitute_type(%s,{%s:%s})' % (t, p, a),
                                lambda o=o, p=p, a=a: tp.substitute_type(o, {objs[p]: objs[a]})))
            ops.append(('find_subtypes(%s)' % t, lambda o=o: sorted(map(str, tu.find_subtypes(
                o, [objs[x] for x in ('Number', 'Integer', 'P', 'Q', 'A', 'G', 'C')], include_self=True)))))
    for s in plain:
        for t in plain:
            if isinstance(objs[s], (tp.ParameterizedType, tp.SimpleClassifier)) and not isinstance(objs[t], tp.WildCardType) \
                    and not isinstance(objs[s], tp.WildCardType) and not isinstance(objs[t], tp.TypeParameter):
                ops.append(('%s.is_subtype(%s)' % (s, t), lambda s=s, t=t: bool(objs[s].is_subtype(objs[t]))))
    if 'declC' in objs:
        ops.append(('declC.get_type()', lambda: objs['declC'].get_type()))
    return ops


def aliasing_search(lang, depth, found, stats, max_second=None):
    from src import utils
    from src.ir import types as tp
    from mc.choice import ChoiceSource
    utils.random.r = ChoiceSource(('prng', 1))

    def digests(objs):
        return {k: snapshot.digest(v) for k, v in objs.items()}

    def run_history(hist):
        """replay on fresh shared objects; returns (objs, problem or None)"""
        utils.random.r = ChoiceSource(('prng', 1))
        f, objs = aliasing_world(lang)
        results = {}
        for step, label in enumerate(hist):
            ops = dict(operations(f, objs))
            if label not in ops:
                return objs, ('op-vanished', label)
            before = digests(objs)
            before_res = {k: snapshot.digest(v) for k, v in results.items()}
            try:
                r = ops[label]()
            except Exception as e:  # noqa
                r = ('raised', type(e).__name__)
            stats['transitions'] = stats.get('transitions', 0) + 1
            after = digests(objs)
            for k in before:
                if after[k] != before[k]:
                    return objs, ('input-mutated', 'step %d %s changed %s' % (step, label, k), label, k)
            for k, d in before_res.items():
                if snapshot.digest(results[k]) != d:
                    return objs, ('earlier-result-changed', 'step %d %s changed the result of %s' % (step, label, k), label, k)
            name = 'r%d' % step
            results[name] = r
            if isinstance(r, tp.Type):
                objs[name] = r
        return objs, None

    f, objs0 = aliasing_world(lang)
    level1 = [l for l, _ in operations(f, objs0)]
    stats['alphabet_level1'] = len(level1)
    frontier = [[]]
    for d in range(depth):
        nxt = []
        for hist in frontier:
            objs, _ = run_history(hist)
            f2, _ = aliasing_world(lang)
            labels = [l for l, _ in operations(f2, objs)]
            if hist:
                # only operations that touch a result of the history (others were covered earlier)
                labels = [l for l in labels if any(('r%d' % i) in l for i in range(len(hist)))]
                if max_second and d >= 2:
                    labels = labels[:max_second]
            for l in labels:
                h2 = hist + [l]
                _, prob = run_history(h2)
                stats['histories'] = stats.get('histories', 0) + 1
                if prob is not None and prob[0] != 'op-vanished':
                    k = (prob[0], _op_kind(prob[2]) + ' affects ' + _obj_kind(prob[3]))
                    det = {'history': h2, 'description': prob[1], 'language': lang}
                    if k not in found or len(h2) < len(found[k][2]['history']):
                        found[k] = [found.get(k, [0])[0] + 1, len(h2), det]
                    else:
                        found[k][0] += 1
                elif d + 1 < depth and not l.startswith(('declC', )) and '.is_subtype(' not in l and 'get_supertypes' not in l and 'find_subtypes' not in l:
                    nxt.append(h2)
        frontier = nxt


def _op_kind(label):
    for k in ('.new(', 'to_variance_free', 'to_type_variable_free', 'get_supertypes', 'substitute_type', 'find_subtypes',
              'is_subtype', 'get_type'):
        if k in label:
            return k.strip('.(')
    return label


def _obj_kind(name):
    return 'an earlier result' if name.startswith('r') and name[1:].isdigit() else 'shared object ' + name


# ---- (c) in situ ------------------------------------------------------------------------------------------

_wrapped = {}


class InSitu:
    """CTE oracle: pickle receiver+arguments around every new()/substitute_type call"""

    def __init__(self, params):
        pipeline.setup_env()
        self.stats = {'calls_checked': 0}
        self.problems = []
        if not _wrapped:
            from src.ir import types as tp
            orig_new = tp.TypeConstructor.new
            orig_sub = tp.substitute_type
            _wrapped['sink'] = self

            def new(slf, type_args):
                before = pickle.dumps((slf, type_args))
                r = orig_new(slf, type_args)
                sink = _wrapped['sink']
                sink.stats['calls_checked'] += 1
                if pickle.dumps((slf, type_args)) != before:
                    sink.problems.append(('TypeConstructor.new', str(slf)[:80]))
                return r

            def substitute_type(t, type_map):
                before = pickle.dumps((t, list(type_map.items())))
                r = orig_sub(t, type_map)
                sink = _wrapped['sink']
                sink.stats['calls_checked'] += 1
                if pickle.dumps((t, list(type_map.items()))) != before:
                    sink.problems.append(('substitute_type', str(t)[:80]))
                return r
            tp.TypeConstructor.new = new
            tp.substitute_type = substitute_type
        _wrapped['sink'] = self
        self.hooks = {'before_gen': lambda x: self.problems.clear()}

    def judge(self, x):
        vs = []
        for fn, what in self.problems[:3]:
            vs.append({'rule': 'input-mutated', 'site': 'src/ir/types.py:' + fn, 'shape': 'in situ: %s changed its receiver or arguments' % fn,
                       'what': what})
        self.problems = []
        return vs


# ---- driver -------------------------------------------------------------------------------------------------

def _work(arg):
    kind = arg[0]
    common.import_repo()
    import src.ir.ast  # noqa
    found, stats = {}, {}
    if kind == 'subst':
        _, idxs, lang, tier = arg
        sks, _ = universe.skeletons(tier)
        for i in idxs:
            check_substitution(sks[i], lang, tier, found, stats)
            stats['tables'] = stats.get('tables', 0) + 1
    else:
        _, lang, depth, max_second = arg
        aliasing_search(lang, depth, found, stats, max_second)
    return kind, found, stats


def run(tier, seed, jobs):
    res = Result(PROP, tier, seed, level='model_checking')
    sks, _ = universe.skeletons(tier)
    langs = ('kotlin', 'java') if tier == 'quick' else ('kotlin', 'java', 'groovy', 'scala')
    n = len(sks)
    step = max(1, n // jobs)
    tasks = [('subst', list(range(i, min(n, i + step))), lang, tier) for lang in langs for i in range(0, n, step)]
    for lang in langs:
        tasks.append(('alias', lang, 2 if tier == 'quick' else 3, None if tier == 'quick' else 40))
    tasks = common.rotate(tasks, seed)
    found = {}
    stats = {}
    with mp.get_context('fork').Pool(jobs) as pool:
        for kind, f, st in pool.imap_unordered(_work, tasks):
            for k, v in st.items():
                stats[k] = (stats.get(k, 0) + v) if k != 'alphabet_level1' else v
            for k, e in f.items():
                kk = (kind,) + k
                if kk not in found:
                    found[kk] = e
                else:
                    found[kk][0] += e[0]
                    if e[1] < found[kk][1]:
                        found[kk][1], found[kk][2] = e[1], e[2]
    for (kind, rule, shape), (cnt, _, det) in sorted(found.items()):
        det = dict(det)
        det['instances'] = cnt
        site = 'src/ir/types.py:TypeConstructor.new' if kind == 'subst' else 'src/ir/types.py (aliasing)'
        res.add(Violation(PROP, rule, site, shape, det))
    # (c) in situ over a small CTE set
    z = (0, 0, 0, 0)
    configs = [Config(l, z, 'S') for l in pipeline.LANGS]
    pols = [('prng', 1)] if tier == 'quick' else [('prng', c) for c in range(1, 5)]
    tot = explore.explore(configs, pols, 1, SPEC, {}, jobs, seed, 8, run_kw={'stages': ('gen', 'erase', 'overwrite'), 'keep_pickles': False})
    res.harness_errors.extend(tot.errors)
    for v in tot.violations:
        res.add(Violation(PROP, v['rule'], v['site'], v['shape'], {k: v[k] for k in v if k not in ('rule', 'site', 'shape')}))
    res.coverage = {
        'states': stats.get('histories', 0) + stats.get('instantiations', 0),
        'transitions': stats.get('transitions', 0) + stats.get('instantiations', 0) + tot.stats.get('calls_checked', 0),
        'traces_validated_against_impl': stats.get('histories', 0),
        'instantiations_compared_with_reference': stats.get('instantiations', 0),
        'ground_substitutions': stats.get('ground_substitutions', 0),
        'aliasing_histories': stats.get('histories', 0), 'aliasing_alphabet_level1': stats.get('alphabet_level1', 0),
        'in_situ_calls_checked': tot.stats.get('calls_checked', 0), 'in_situ_executions': tot.execs,
        'tables': stats.get('tables', 0), 'exhaustive': tot.capped == 0,
        'samples': [{'history': ['B.new(Integer,Integer)', 'r0.to_variance_free()', 'substitute_type(r1,{T1:W_out})'],
                     'meaning': 'instantiate, rebuild, substitute on objects that share constructors and arguments'}],
        'explanation': 'states = aliasing histories + instantiations; every history step re-snapshots all earlier objects',
    }
    return res


def replay(path):
    import json
    d = json.load(open(path))
    print('REPLAY: re-run ./check C07;', json.dumps(d['detail'])[:400])
    return 1
