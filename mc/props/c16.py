"""C16 -- the symbol table behaves like a scoped map.

Deciding step: explicit-state BFS over add/remove histories (HBFS).  A state is the history
that reaches it; build(hist) replays it on a fresh real Context and on the reference model
(mc/ref/context_model.py) in lock-step; after every event ALL queries are compared.  States are
merged on the model's canonical form (namespace -> kind -> ordered (name -> value renamed by first
appearance) + reverse index): every compared query is a function of exactly that form, so merged
states have the same futures.
"""
import hashlib
import multiprocessing as mp

from mc import common
from mc.common import Result, Violation
from mc.ref.context_model import ScopedMapModel, KINDS, DECL_KINDS

PROP = 'C16'

NS_FULL = [('global',), ('global', 'f'), ('global', 'f', 'x'), ('global', 'C')]
NAMES = ['x', 'f']
ADD = {'types': 'add_type', 'funcs': 'add_func', 'lambdas': 'add_lambda', 'vars': 'add_var',
       'classes': 'add_class'}
REM = {'types': 'remove_type', 'funcs': 'remove_func', 'lambdas': 'remove_lambda',
       'vars': 'remove_var', 'classes': 'remove_class'}
GET = {'types': 'get_types', 'funcs': 'get_funcs', 'lambdas': 'get_lambdas', 'vars': 'get_vars',
       'classes': 'get_classes', 'decls': 'get_declarations'}


def alphabet(name):
    """list of events (op, ns, kind, name); op in add / addnone / rem"""
    if name == 'full':
        nss, kinds = NS_FULL, KINDS
    elif name == 'decl':      # declaration kinds only, the namespaces on one path + sibling
        nss, kinds = NS_FULL, DECL_KINDS
    else:                     # 'small': two nested namespaces, declaration kinds
        nss, kinds = NS_FULL[:2], DECL_KINDS
    ev = []
    for ns in nss:
        for kind in kinds:
            for n in NAMES:
                ev.append(('add', ns, kind, n))
                ev.append(('rem', ns, kind, n))
                if kind in ('funcs', 'classes'):
                    ev.append(('addnone', ns, kind, n))   # artificial node of the generator
    return ev


_cls = {}


def make_value(kind, name, serial):
    from src.ir import ast, types as tp
    if not _cls:
        _cls.update({'funcs': ast.FunctionDeclaration, 'vars': ast.VariableDeclaration,
                     'classes': ast.ClassDeclaration, 'lambdas': ast.Lambda})
    if kind == 'types':
        return tp.TypeParameter(name)
    v = object.__new__(_cls[kind])
    v.name = name
    v.serial = serial
    return v


def build(hist):
    from src.ir.context import Context
    c = Context()
    m = ScopedMapModel()
    values = []      # (value, kind, status) status: live / removed / overwritten
    for i, (op, ns, kind, name) in enumerate(hist):
        if op == 'add':
            v = make_value(kind, name, i)
            old = m.tables.get(ns, {}).get(kind, {}).get(name)
            getattr(c, ADD[kind])(ns, name, v)
            m.add(ns, kind, name, v)
            values.append(v)
        elif op == 'addnone':
            getattr(c, ADD[kind])(ns, name, None)
            m.add(ns, kind, name, None)
        else:
            getattr(c, REM[kind])(ns, name)
            m.remove(ns, kind, name)
    return c, m, values


def enabled(m, ev):
    op, ns, kind, name = ev
    if op != 'rem':
        return True
    return m.removal_enabled(ns, kind, name)


QUERY_NS = NS_FULL + [('global', 'zz'), ('global', 'C', 'f')]
QUERY_NAMES = NAMES + ['zz']


def compare(c, m, values, hist):
    """-> None or (rule, description)"""
    from src.ir import context as ctxmod, types as tp
    nq = 0
    for ns in QUERY_NS:
        for kind, getter in GET.items():
            g = getattr(c, getter)
            for none in (False, True):
                got = g(ns, only_current=True, none=none)
                nq += 1
                if list(got.items()) != m.current(ns, kind, none):
                    return ('current-namespace-query', '%s(%s, only_current, none=%s) = %r, expected %r' % (
                        getter, ns, none, list(got.items()), m.current(ns, kind, none))), nq
                got = g(ns, none=none)
                nq += 1
                exp = m.path(ns, kind, none)
                if dict(got) != exp or len(got) != len(exp):
                    return ('enclosing-scope-query', '%s(%s, none=%s) = %r, expected %r' % (
                        getter, ns, none, dict(got), exp)), nq
                got = g(ns, glob=True, none=none)
                nq += 1
                must, may = m.glob_bounds(ns, kind, none)
                if not must <= set(got.keys()):
                    return ('global-query', '%s(%s, glob, none=%s) misses %r' % (
                        getter, ns, none, sorted(must - set(got.keys())))), nq
                for k, v in got.items():
                    if (k, id(v)) not in may:
                        return ('global-query', '%s(%s, glob, none=%s) returns %r -> %r which no reachable namespace holds' % (
                            getter, ns, none, k, v)), nq
        for name in QUERY_NAMES:
            for limit in (None, ('global',), ('global', 'f')):
                got = ctxmod.get_decl(c, ns, name, limit=limit)
                exp = m.lookup(ns, name, limit)
                nq += 1
                if (got is None) != (exp is None) or (got is not None and (got[0] != exp[0] or got[1] is not exp[1])):
                    return ('lookup', 'get_decl(%s, %r, limit=%s) = %r, expected %r' % (ns, name, limit, got, exp)), nq
            got = c.get_decl(ns, name)
            exp = m.tables.get(ns, {}).get('decls', {}).get(name)
            nq += 1
            if got is not exp:
                return ('lookup', 'Context.get_decl(%s, %r) = %r, expected %r' % (ns, name, got, exp)), nq
            got = c.get_lambda(ns, name)
            exp = m.tables.get(ns, {}).get('lambdas', {}).get(name)
            nq += 1
            if got is not exp:
                return ('lookup', 'get_lambda(%s, %r) = %r, expected %r' % (ns, name, got, exp)), nq
            for kind in KINDS:
                for glob in (True, False):
                    got = c.get_namespaces_decls(ns, name, kind, glob=glob)
                    nq += 1
                    start = (ns[0],) if glob else ns
                    must = set()
                    for n in m.reachable(start, through_none=False):
                        v = m.tables.get(n, {}).get(kind, {}).get(name)
                        if v is not None:
                            must.add((n + (name,), id(v)))
                    may = set()
                    for n in m.reachable(start, through_none=True):
                        t = m.tables.get(n, {}).get(kind, {})
                        if name in t:
                            may.add((n + (name,), id(t[name])))
                    gotk = {(a, id(b)) for a, b in got}
                    if not must <= gotk or not gotk <= may:
                        return ('namespaces-of-name', 'get_namespaces_decls(%s, %r, %s, glob=%s) = %r' % (
                            ns, name, kind, glob, got)), nq
    # reverse lookup
    live = m.home
    bound_ids = set()
    for n, t in m.tables.items():
        for k in KINDS:
            for v in t[k].values():
                if v is not None:
                    bound_ids.add(id(v))
    for v in values:
        if isinstance(v, tp.Type):
            continue      # types are value-hashed: not "a declaration added in one namespace"
        nq += 1
        got = c.get_namespace(v)
        if id(v) in bound_ids:
            if got != live.get(id(v)):
                return ('reverse-lookup', 'get_namespace(%s#%d) = %r, expected %r' % (
                    v.name, v.serial, got, live.get(id(v)))), nq
        elif id(v) not in live:
            # either removed (must be None) or overwritten by a later add (unspecified)
            if _was_removed(hist, v) and got is not None:
                return ('reverse-lookup', 'get_namespace of removed %s#%d = %r' % (v.name, v.serial, got)), nq
    return None, nq


def _was_removed(hist, v):
    """True iff the binding created by event v.serial was ended by a removal (not by a re-add)."""
    op, ns, kind, name = hist[v.serial]
    for (op2, ns2, kind2, name2) in hist[v.serial + 1:]:
        if ns2 == ns and name2 == name:
            if op2 in ('add', 'addnone') and (kind2 == kind or (kind in DECL_KINDS and kind2 in DECL_KINDS)):
                return False
            if op2 == 'rem' and kind2 == kind:
                return True
    return False


def _expand(arg):
    alpha_name, hists = arg
    common.import_repo()
    import src.ir.ast  # noqa
    EV = alphabet(alpha_name)
    out = []
    bad = []
    trans = 0
    nq = 0
    for hist_idx in hists:
        hist = [EV[i] for i in hist_idx]
        _, m0, _ = build(hist)
        for ei, ev in enumerate(EV):
            if not enabled(m0, ev):
                continue
            h2 = hist + [ev]
            c, m, values = build(h2)
            trans += 1
            r, q = compare(c, m, values, h2)
            nq += q
            if r is not None:
                bad.append((r[0], r[1], h2))
                continue
            key = hashlib.md5(repr(m.canon()).encode()).digest()
            out.append((key, hist_idx + (ei,)))
    return out, bad, trans, nq


def bfs(alpha_name, depth, jobs, seed, res, state_cap=None):
    EV = alphabet(alpha_name)
    seen = {hashlib.md5(repr(ScopedMapModel().canon()).encode()).digest()}
    frontier = [()]
    total_trans = total_q = 0
    levels = []
    bad_all = []
    ctx = mp.get_context('fork')
    capped = False
    with ctx.Pool(jobs) as pool:
        for d in range(depth):
            frontier = common.rotate(frontier, seed)
            chunk = max(1, len(frontier) // (jobs * 8))
            tasks = [(alpha_name, frontier[i:i + chunk]) for i in range(0, len(frontier), chunk)]
            nxt = {}
            for out, bad, trans, nq in pool.imap_unordered(_expand, tasks):
                total_trans += trans
                total_q += nq
                bad_all.extend(bad)
                for key, h in out:
                    if key not in seen and (key not in nxt or h < nxt[key]):
                        nxt[key] = h
            for k in nxt:
                seen.add(k)
            frontier = sorted(nxt.values())
            levels.append({'depth': d + 1, 'new_states': len(frontier), 'transitions_so_far': total_trans})
            if state_cap and len(frontier) > state_cap and d + 1 < depth:
                capped = True
                break
    return {'alphabet': alpha_name, 'events': len(EV), 'depth': len(levels), 'states': len(seen),
            'transitions': total_trans, 'queries_compared': total_q, 'levels': levels,
            'capped': capped}, bad_all


def run(tier, seed, jobs):
    res = Result(PROP, tier, seed, level='model_checking')
    if tier == 'quick':
        plans = [('full', 3), ('small', 4)]
    else:
        plans = [('full', 3), ('decl', 4), ('small', 6)]
    runs = []
    states = trans = nq = 0
    for alpha_name, depth in plans:
        info, bad = bfs(alpha_name, depth, jobs, seed, res)
        runs.append(info)
        states += info['states']
        trans += info['transitions']
        nq += info['queries_compared']
        # shortest history first, one violation per rule
        bad.sort(key=lambda b: (len(b[2]), repr(b[2])))
        seen_rules = set()
        for rule, desc, hist in bad:
            if rule in seen_rules:
                continue
            seen_rules.add(rule)
            res.add(Violation(PROP, rule, 'src/ir/context.py', rule + ' disagrees with the scoped-map model',
                              {'history': [list(e) for e in hist], 'description': desc, 'alphabet': alpha_name,
                               'instances': sum(1 for b in bad if b[0] == rule)}))
    res.coverage = {
        'states': states, 'transitions': trans, 'traces_validated_against_impl': trans,
        'queries_compared': nq, 'runs': runs, 'exhaustive': not any(r['capped'] for r in runs),
        'samples': [{'history': [['add', ['global'], 'funcs', 'f'], ['add', ['global', 'f'], 'vars', 'x'],
                                 ['rem', ['global'], 'funcs', 'f']],
                     'meaning': 'declare function f, a variable inside it, remove f: the inner namespace is no '
                                'longer reachable for global queries but still answers current-namespace queries'}],
        'explanation': 'every transition replays the history on a fresh real Context and on the reference model and '
                       'compares all queries; states merged on the canonical scoped-map form',
    }
    res.assumptions = ['removals are issued through the kind that binds the name, or for unbound names',
                       'global queries and get_namespaces_decls are judged as candidate sets',
                       'reverse lookup of type entries (value-hashed) and of overwritten values is unspecified']
    return res


def replay(path):
    import json
    common.import_repo()
    import src.ir.ast  # noqa
    d = json.load(open(path))['detail']
    hist = [(e[0], tuple(e[1]), e[2], e[3]) for e in d['history']]
    c, m, values = build(hist)
    r, _ = compare(c, m, values, hist)
    print('REPLAY', r)
    return 1 if r else 0
