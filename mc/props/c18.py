"""C18 -- the pipeline never fails internally and always terminates (bounded work).

Deciding step: CTE (mc/explore.py) -- every execution of generate -> translate -> erase ->
translate -> overwrite -> translate with <= k deviations from each base schedule, for all four
languages, several switch vectors and depth limits.  Oracle: no exception from any stage (the
harness does NOT wrap stages in the driver's catch-all), no RecursionError under the default
recursion limit, no execution beyond the horizon of 20 000 choice points, AST nesting of the
generated program bounded by a function of max_depth, erasure search bounded by
max_combinations.
"""
from mc import common, explore, pipeline
from mc.common import Result, Violation
from mc.pipeline import Config, LIMITS

PROP = 'C18'
SPEC = 'mc.props.c18:Oracle'


def nest_bound(max_depth):
    # generous linear bound; the generator's own cut is depth > 2*max_depth for leaves and
    # each generator level nests at most a handful of IR nodes (block, call argument, ...)
    return 8 * max_depth + 16


def ast_depth(node):
    """Iterative depth of the IR tree through children()."""
    best = 0
    stack = [(node, 1)]
    while stack:
        n, d = stack.pop()
        if d > best:
            best = d
        try:
            ch = n.children()
        except (NotImplementedError, AttributeError):
            ch = []
        for c in ch:
            if c is not None:
                stack.append((c, d + 1))
    return best


_patched = {}


def _patch_counters():
    if _patched:
        return
    from src.analysis import type_dependency_analysis as tda
    from src.transformations import type_erasure as te, base as tb
    orig = tda.is_combination_feasible
    st = {'calls': 0, 'timer': 0}

    def counted(type_graph, combination):
        st['calls'] += 1
        return orig(type_graph, combination)
    tda.is_combination_feasible = counted
    orig_visit = te.TypeErasure.visit_func_decl
    per_func = {'max': 0}

    def visit_func_decl(self, node):
        before = st['calls']
        r = orig_visit(self, node)
        used = st['calls'] - before
        if used > per_func['max']:
            per_func['max'] = used
            per_func['limit'] = self.max_combinations
        return r
    te.TypeErasure.visit_func_decl = visit_func_decl
    _patched['st'] = st
    _patched['per_func'] = per_func


class Oracle:
    def __init__(self, params):
        pipeline.setup_env()
        _patch_counters()
        self.stats = {'errors': 0, 'max_nesting': {}, 'max_comb_per_func': 0}
        self.hooks = {'before_gen': self._before}

    def _before(self, x):
        _patched['per_func']['max'] = 0
        pipeline.VirtualTimer.started = 0
        pipeline.VirtualTimer.cancelled = 0

    def judge(self, x):
        vs = []
        if x.error is not None:
            stage, etype, msg, frame = x.error
            self.stats['errors'] += 1
            rule = 'horizon' if etype == 'Horizon' else 'exception'
            vs.append({'rule': rule, 'site': frame or stage,
                       'shape': '%s in stage %s' % (etype, stage.rstrip('0123456789')),
                       'message': msg})
        if x.P0 is not None:
            md = LIMITS[x.config.limits][0]
            d = ast_depth(x.P0)
            key = 'max_depth=%d' % md
            if d > self.stats['max_nesting'].get(key, 0):
                self.stats['max_nesting'][key] = d
            if d > nest_bound(md):
                vs.append({'rule': 'nesting-bound', 'site': 'src/generators/generator.py:generate',
                           'shape': 'nesting %d > %d for max_depth %d' % (d, nest_bound(md), md)})
        pf = _patched['per_func']
        if pf['max'] > self.stats['max_comb_per_func']:
            self.stats['max_comb_per_func'] = pf['max']
        if pf['max'] and pf['max'] > pf.get('limit', 500000) + 64:
            vs.append({'rule': 'erasure-search-bound', 'site': 'src/transformations/type_erasure.py:visit_func_decl',
                       'shape': 'more than max_combinations feasibility checks for one function'})
        if pipeline.VirtualTimer.started != pipeline.VirtualTimer.cancelled and x.error is None:
            vs.append({'rule': 'visitor-timer-leaked', 'site': 'src/transformations/base.py:wrapped_visitor',
                       'shape': 'timer started but not cancelled'})
        return vs


def merge_max(stats):
    return stats


def plan(tier):
    """-> list of (configs, policies, bound, nslices)."""
    langs = pipeline.LANGS
    if tier == 'quick':
        sw = [(0, 0, 0, 0), (1, 1, 1, 1)]
        return [
            ([Config(l, s, 'S') for l in langs for s in sw], ['first', 'alt', ('prng', 1), ('prng', 2), ('prng', 3)], 1, 4),
            ([Config(l, (0, 0, 0, 0), 'XS') for l in langs], [('prng', 1), ('prng', 2)], 1, 2),
            ([Config(l, (0, 0, 0, 0), 'D') for l in langs], [('prng', 1), ('prng', 2), ('prng', 3)], 0, 1),
        ]
    sw = [(a, b, c, d) for a in (0, 1) for b in (0, 1) for c in (0, 1) for d in (0, 1)]
    from mc import plans
    return plans.thorough(langs, 'light')


def to_violation(v):
    return Violation(PROP, v['rule'], v['site'], v['shape'],
                     {k: v[k] for k in v if k not in ('rule', 'site', 'shape')})


def run(tier, seed, jobs):
    res = Result(PROP, tier, seed, level='model_checking')
    execs = trans = 0
    states = set()
    stats = {}
    samples = []
    bounds = []
    capped = 0
    validated = 0
    for configs, policies, bound, nslices in plan(tier):
        tot = explore.explore(configs, policies, bound, SPEC, {}, jobs, seed, nslices)
        execs += tot.execs
        trans += tot.transitions
        states |= tot.states
        capped += tot.capped
        for e in tot.errors:
            res.harness_errors.append(e)
        for v in tot.violations:
            res.add(to_violation(v))
        explore._merge_stats(stats, tot.stats)
        stats.setdefault('max_points', 0)
        stats['max_points'] = max(stats['max_points'], tot.max_points)
        samples.extend(tot.samples[:1])
        bounds.append({'configs': len(configs), 'limits': configs[0].limits, 'policies': len(policies),
                       'deviation_bound': bound, 'executions': tot.execs, 'stage_points': tot.stage_points})
        validated += explore.validate_fresh(tot, res)
    res.coverage = {
        'states': len(states),
        'transitions': trans,
        'traces_validated_against_impl': validated,
        'executions': execs,
        'samples': samples[:4],
        'exploration_plan': bounds,
        'exhaustive': capped == 0,
        'caps_hit': capped,
        'stats': stats,
        'explanation': 'states = distinct program texts produced; transitions = choice points answered; '
                       'every execution of every base schedule with <= bound deviations was run to completion',
    }
    res.assumptions = ['integer menus are representative (choice.py), word()/char() are data choices',
                       'wall time is not an observable: work is measured in counters']
    return res


def replay(path):
    import json
    d = json.load(open(path))['detail']
    x = explore.run_schedule(d['schedule'], hooks=Oracle({}).hooks)
    vs = Oracle({}).judge(x)
    print('REPLAY', x.error, vs)
    return 1 if vs else 0
