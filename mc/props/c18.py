"""C18 -- the pipeline never fails internally and always terminates (bounded work).

Deciding step: CTE (mc/explore.py) -- every execution of generate -> translate -> erase ->
translate -> overwrite -> translate with <= k deviations from each base schedule, for all four
languages, several switch vectors and depth limits.  Oracle: no exception from any stage (the
harness does NOT wrap stages in the driver's catch-all), no RecursionError under the default
recursion limit, no execution beyond the horizon of 20 000 choice points, AST nesting of the
generated program bounded by a function of max_depth, erasure search bounded by
max_combinations (checked with the transformation's own budget option set low enough to be reached).

SESSION part (history dimension): the real driver (hephaestus.py: _run, gen_program, gen_program_mul,
ProgramProcessor, generator, mutations, translation; --dry-run) generates N programs in ONE batch and,
separately, N programs as one pool worker would (gen_program_mul N times in one process, nobody else
resetting anything), with the REAL word() (drawn without replacement) over a pool scaled down to
POOL words (a subset of the real pool; one program needs ~25-60, the guard below checks that).  N is
chosen so that the words drawn exceed the pool several times over: any state accumulating from
program to program (identifier pool, caches) turns into an internal failure inside the explored
history.  A failure is only reported when no single program drew more than POOL/4 words.  Oracle: no
program of the session fails internally, _run raises nothing, passed == N.
"""
from mc import common, explore, pipeline
from mc.common import Result, Violation
from mc.pipeline import Config, LIMITS

PROP = 'C18'
SPEC = 'mc.props.c18:Oracle'


def nest_bound(max_depth):
    # generous linear bound; the generator's own cut is depth > 2*max_depth for leaves and
    # each generator level nests at most a handful of IR nodes (block, call argument, ...)
    return 8 * max_depth + 16


def ast_depth(node):
    """Iterative depth of the IR tree through children()."""
    best = 0
    stack = [(node, 1)]
    while stack:
        n, d = stack.pop()
        if d > best:
            best = d
        try:
            ch = n.children()
        except (NotImplementedError, AttributeError):
            ch = []
        for c in ch:
            if c is not None:
                stack.append((c, d + 1))
    return best


_patched = {}


def _patch_counters():
    if _patched:
        return
    from src.analysis import type_dependency_analysis as tda
    from src.transformations import type_erasure as te, base as tb
    orig = tda.is_combination_feasible
    st = {'calls': 0, 'timer': 0}

    def counted(type_graph, combination):
        st['calls'] += 1
        if len(combination) == 1:
            st['singles'] = st.get('singles', 0) + 1
        return orig(type_graph, combination)
    tda.is_combination_feasible = counted
    orig_visit = te.TypeErasure.visit_func_decl
    per_func = {'max': 0}

    def visit_func_decl(self, node):
        before = st['calls']
        before1 = st.get('singles', 0)
        r = orig_visit(self, node)
        # the search proper: every omittable node is first tested alone (size-1 calls), then combinations are
        # enumerated until the budget is used up: at most max_combinations + 1 further calls
        used = (st['calls'] - before) - (st.get('singles', 0) - before1)
        if used > per_func['max']:
            per_func['max'] = used
            per_func['limit'] = self.max_combinations
        if self.max_combinations and used > self.max_combinations + 1:
            per_func['over'] = (used, self.max_combinations)
        return r
    te.TypeErasure.visit_func_decl = visit_func_decl
    _patched['st'] = st
    _patched['per_func'] = per_func


class Oracle:
    def __init__(self, params):
        pipeline.setup_env()
        _patch_counters()
        self.stats = {'errors': 0, 'max_nesting': {}, 'max_comb_per_func': 0}
        self.hooks = {'before_gen': self._before}

    def _before(self, x):
        _patched['per_func']['max'] = 0
        _patched['per_func'].pop('over', None)
        pipeline.VirtualTimer.started = 0
        pipeline.VirtualTimer.cancelled = 0

    def judge(self, x):
        vs = []
        if x.error is not None:
            stage, etype, msg, frame = x.error
            self.stats['errors'] += 1
            rule = 'horizon' if etype == 'Horizon' else 'exception'
            vs.append({'rule': rule, 'site': frame or stage,
                       'shape': '%s in stage %s' % (etype, stage.rstrip('0123456789')),
                       'message': msg})
        if x.P0 is not None:
            md = LIMITS[x.config.limits][0]
            d = ast_depth(x.P0)
            key = 'max_depth=%d' % md
            if d > self.stats['max_nesting'].get(key, 0):
                self.stats['max_nesting'][key] = d
            if d > nest_bound(md):
                vs.append({'rule': 'nesting-bound', 'site': 'src/generators/generator.py:generate',
                           'shape': 'nesting %d > %d for max_depth %d' % (d, nest_bound(md), md)})
        pf = _patched['per_func']
        if pf['max'] > self.stats['max_comb_per_func']:
            self.stats['max_comb_per_func'] = pf['max']
        if pf.get('limit') is not None and pf['limit'] < 500000 and pf['max'] >= pf['limit']:
            self.stats['functions_reaching_erasure_budget'] = self.stats.get('functions_reaching_erasure_budget', 0) + 1
        if pf.get('over'):
            vs.append({'rule': 'erasure-search-bound', 'site': 'src/transformations/type_erasure.py:visit_func_decl',
                       'shape': 'more than max_combinations feasibility checks for one function',
                       'checks': pf['over'][0], 'max_combinations': pf['over'][1]})
        if pipeline.VirtualTimer.started != pipeline.VirtualTimer.cancelled and x.error is None:
            vs.append({'rule': 'visitor-timer-leaked', 'site': 'src/transformations/base.py:wrapped_visitor',
                       'shape': 'timer started but not cancelled'})
        return vs


def merge_max(stats):
    return stats


def plan(tier):
    """-> list of (configs, policies, bound, nslices)."""
    langs = pipeline.LANGS
    if tier == 'quick':
        sw = [(0, 0, 0, 0), (1, 1, 1, 1)]
        return [
            ([Config(l, s, 'S') for l in langs for s in sw], ['first', 'alt', ('prng', 1), ('prng', 2), ('prng', 3)], 1, 4),
            ([Config(l, (0, 0, 0, 0), 'XS') for l in langs], [('prng', 1), ('prng', 2)], 1, 2),
            ([Config(l, (0, 0, 0, 0), 'D') for l in langs], [('prng', 1), ('prng', 2), ('prng', 3)], 0, 1),
            # erasure search budget: the transformation's max_combinations option set to a value that functions
            # with a handful of omittable nodes exhaust (the default 500000 needs >= 19 such nodes)
            ([Config(l, (0, 0, 0, 0), 'S') for l in langs], [('prng', 1)], 1, 4, {'erasure_budget': 3}),
            ([Config(l, (0, 0, 0, 0), lim) for l in langs for lim in ('M', 'D')], [('prng', c) for c in range(1, 9)], 0, 1,
             {'erasure_budget': 5}),
        ]
    sw = [(a, b, c, d) for a in (0, 1) for b in (0, 1) for c in (0, 1) for d in (0, 1)]
    from mc import plans
    return plans.thorough(langs, 'light') + [
        ([Config(l, (0, 0, 0, 0), 'S') for l in langs], [('prng', 1), ('prng', 2), 'alt'], 1, 8, {'erasure_budget': 3}),
        ([Config(l, (0, 0, 0, 0), 'M') for l in langs], [('prng', 1)], 1, 16, {'erasure_budget': 5}),
        ([Config(l, (0, 0, 0, 0), 'D') for l in langs], [('prng', c) for c in range(1, 25)], 0, 1, {'erasure_budget': 8}),
    ]


def to_violation(v):
    return Violation(PROP, v['rule'], v['site'], v['shape'],
                     {k: v[k] for k in v if k not in ('rule', 'site', 'shape')})


def run(tier, seed, jobs):
    res = Result(PROP, tier, seed, level='model_checking')
    execs = trans = 0
    states = set()
    stats = {}
    samples = []
    bounds = []
    capped = 0
    validated = 0
    started = start_sessions(tier)
    for part in plan(tier):
        configs, policies, bound, nslices = part[:4]
        run_kw = part[4] if len(part) > 4 else {}
        tot = explore.explore(configs, policies, bound, SPEC, {}, jobs, seed, nslices, run_kw=run_kw)
        execs += tot.execs
        trans += tot.transitions
        states |= tot.states
        capped += tot.capped
        for e in tot.errors:
            res.harness_errors.append(e)
        for v in tot.violations:
            res.add(to_violation(v))
        explore._merge_stats(stats, tot.stats)
        stats.setdefault('max_points', 0)
        stats['max_points'] = max(stats['max_points'], tot.max_points)
        samples.extend(tot.samples[:1])
        bounds.append({'configs': len(configs), 'limits': configs[0].limits, 'policies': len(policies),
                       'deviation_bound': bound, 'executions': tot.execs, 'stage_points': tot.stage_points,
                       'run_options': run_kw})
        validated += explore.validate_fresh(tot, res, run_kw)
    sessions = collect_sessions(started, res)
    res.coverage = {
        'sessions': sessions,
        'states': len(states),
        'transitions': trans,
        'traces_validated_against_impl': validated,
        'executions': execs,
        'samples': samples[:4],
        'exploration_plan': bounds,
        'exhaustive': capped == 0,
        'caps_hit': capped,
        'stats': stats,
        'explanation': 'states = distinct program texts produced; transitions = choice points answered; '
                       'every execution of every base schedule with <= bound deviations was run to completion',
    }
    res.assumptions = ['integer menus are representative (choice.py), word()/char() are data choices',
                       'wall time is not an observable: work is measured in counters']
    return res


# ---- session part -----------------------------------------------------------------------------

SESSION_N = {'quick': 360, 'thorough': 1200}
POOL = 2500


def _session_main(lang, n, scratch):
    """runs in its own interpreter (hephaestus.py parses the command line at import)"""
    import contextlib
    import io
    import itertools
    import json
    import os
    import random as pyrandom
    import sys
    import types as _types
    common.install_arena_cache()
    common.import_repo()
    pyrandom.seed(0)                 # the word pool is sampled from the global random at import
    bugs = os.path.join(scratch, 'bugs')
    sys.argv = ['hephaestus.py', '--bugs', bugs, '--name', 's', '--language', lang, '--batch', str(n),
                '--iterations', str(n), '--max-depth', '3', '--dry-run', '--transformations', '1',
                '--log-file', os.path.join(scratch, 'logs')]
    os.chdir(scratch)
    import src.ir.ast  # noqa
    import hephaestus as H
    from src import utils
    from src.ir import node as irnode
    from src.generators.config import cfg
    import src.transformations.base as tbase
    tbase.threading = _types.SimpleNamespace(Timer=pipeline.VirtualTimer)
    ctr = itertools.count(1)

    def _vh(self):
        d = self.__dict__
        h = d.get('_vh')
        if h is None:
            h = d['_vh'] = next(ctr)
        return h
    irnode.Node.__hash__ = _vh
    cfg.limits.min_top_level, cfg.limits.max_top_level = 2, 3

    class DetRandom(pyrandom.Random):
        k = 0

        def seed(self, a=None, version=2):
            if a is None:            # gen_program_mul reseeds from OS entropy: made deterministic
                DetRandom.k += 1
                a = DetRandom.k
            super().seed(a, version)
    utils.random.r = DetRandom(1)
    H.logging = lambda: None
    H.print_msg = lambda: None
    ws = sorted(utils.random.INITIAL_WORDS)[:POOL]      # after src.args removed the reserved words
    utils.random.INITIAL_WORDS = set(ws)
    utils.random.WORDS = set(ws)
    drawn = [0]
    max_single = [0]
    real_word = utils.random.word

    def word():
        drawn[0] += 1
        return real_word()
    utils.random.word = word
    results = []
    real_gen = H.gen_program

    def gen_program(pid, dirname, packages):
        d0 = drawn[0]
        r = real_gen(pid, dirname, packages)
        max_single[0] = max(max_single[0], drawn[0] - d0)
        results.append((pid, bool(r.failed), None if not r.failed else str(r.stats.get('error'))[:200]))
        return r
    H.gen_program = gen_program
    out = {'lang': lang, 'n': n, 'pool_size': len(ws)}
    raised = None
    buf = io.StringIO()
    with contextlib.redirect_stdout(buf):
        try:
            H.run()
        except BaseException as e:  # noqa
            raised = '%s: %s' % (type(e).__name__, str(e)[:200])
    out['batch'] = {'raised': raised, 'programs': len(results),
                    'failed': [r for r in results if r[1]][:3], 'n_failed': sum(1 for r in results if r[1]),
                    'passed_counter': H.STATS['totals']['passed'], 'failed_counter': H.STATS['totals']['failed'],
                    'words_drawn': drawn[0]}
    # one pool worker's life: gen_program_mul again and again in one process
    del results[:]
    drawn[0] = 0
    raised = None
    tmp = os.path.join(scratch, 'w')
    with contextlib.redirect_stdout(buf):
        try:
            for i in range(n):
                H.gen_program_mul(10000 + i, os.path.join(tmp, 'src'), ('pa%d' % i, 'pb%d' % i))
        except BaseException as e:  # noqa
            raised = '%s: %s' % (type(e).__name__, str(e)[:200])
    out['worker'] = {'raised': raised, 'programs': len(results), 'failed': [r for r in results if r[1]][:3],
                     'n_failed': sum(1 for r in results if r[1]), 'words_drawn': drawn[0]}
    out['max_words_one_program'] = max_single[0]
    print('SESSION-RESULT ' + json.dumps(out))


def _one_session(arg):
    import json
    import os
    import shutil
    import subprocess
    import sys
    import tempfile
    lang, n = arg
    scratch = tempfile.mkdtemp(prefix='verif_c18s_', dir=common.scratch_root())
    try:
        env = dict(os.environ)
        env['PYTHONHASHSEED'] = '0'
        env['PYTHONDONTWRITEBYTECODE'] = '1'
        p = subprocess.run([sys.executable, '-m', 'mc.props.c18', '--session', lang, str(n), scratch], env=env,
                           cwd=common.VERIF, stdout=subprocess.PIPE, stderr=subprocess.PIPE, timeout=7200)
        for line in p.stdout.decode().splitlines():
            if line.startswith('SESSION-RESULT '):
                return json.loads(line[len('SESSION-RESULT '):])
        return {'lang': lang, 'n': n, 'harness_error': p.stderr.decode()[-1500:]}
    finally:
        shutil.rmtree(scratch, ignore_errors=True)


def start_sessions(tier):
    """the four session interpreters run alongside the CTE parts"""
    from concurrent.futures import ThreadPoolExecutor
    n = SESSION_N[tier]
    ex = ThreadPoolExecutor(4)
    return ex, [ex.submit(_one_session, (l, n)) for l in pipeline.LANGS]


def collect_sessions(started, res):
    ex, futs = started
    outs = [f.result() for f in futs]
    ex.shutdown()
    summary = []
    for o in outs:
        if 'harness_error' in o:
            res.harness_errors.append('session %s: %s' % (o['lang'], o['harness_error']))
            continue
        if o['max_words_one_program'] * 4 > o['pool_size']:
            summary.append({'lang': o['lang'], 'inconclusive': 'one program drew %d words of a pool of %d'
                            % (o['max_words_one_program'], o['pool_size'])})
            continue
        for mode in ('batch', 'worker'):
            m = o[mode]
            sched = {'session': {'lang': o['lang'], 'n': o['n'], 'mode': mode}}
            if m['raised']:
                res.add(Violation(PROP, 'session-raises', 'hephaestus.py:' + ('_run' if mode == 'batch' else 'gen_program_mul'),
                                  '%s escapes a %s session' % (m['raised'].split(':')[0], mode),
                                  {'schedule': sched, 'message': m['raised']}))
            if m['n_failed']:
                first = m['failed'][0]
                res.add(Violation(PROP, 'session-program-fails-internally', 'hephaestus.py:gen_program',
                                  'a program of a long %s session fails internally: %s' % (mode, (first[2] or '').split(':')[0][:60]),
                                  {'schedule': sched, 'first_failed_program': first[0], 'message': first[2],
                                   'failed_programs': m['n_failed']}))
            if mode == 'batch' and not m['raised'] and (m['passed_counter'] + m['failed_counter'] != o['n']):
                res.add(Violation(PROP, 'session-counters', 'hephaestus.py:update_stats',
                                  'passed + failed != programs of the session', {'schedule': sched, 'counters': m}))
        summary.append({'lang': o['lang'], 'programs_per_mode': o['n'], 'pool_size': o['pool_size'],
                        'words_drawn_batch': o['batch']['words_drawn'], 'words_drawn_worker': o['worker']['words_drawn'],
                        'max_words_one_program': o['max_words_one_program'],
                        'pool_turned_over': round(o['batch']['words_drawn'] / max(1, o['pool_size']), 2)})
    return summary


def replay(path):
    import json
    d = json.load(open(path))['detail']
    if 'session' in d.get('schedule', {}):
        s_ = d['schedule']['session']
        o_ = _one_session((s_['lang'], s_['n']))
        print('REPLAY', o_)
        bad = o_.get('harness_error') or any(o_[m]['raised'] or o_[m]['n_failed'] for m in ('batch', 'worker'))
        return 1 if bad else 0
    o = Oracle({})
    x = explore.run_schedule(d['schedule'], hooks=o.hooks, **(d.get('run_options') or {}))
    vs = o.judge(x)
    print('REPLAY', x.error, vs)
    return 1 if vs else 0


if __name__ == '__main__':
    import sys as _sys
    if len(_sys.argv) >= 5 and _sys.argv[1] == '--session':
        _session_main(_sys.argv[2], int(_sys.argv[3]), _sys.argv[4])
