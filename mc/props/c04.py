"""C04 -- type overwriting injects exactly one real type error (the fail oracle).

Deciding step: (A) CTE with deviations in every stage: the overwriting result of every explored
execution is judged; (B) for the erased program of every base execution the COMPLETE choice tree
of TypeOverwriting.transform() is walked (mc/inner.py): every candidate method x candidate node x
type parameter x replacement class the mutation can pick (the draws that merely build the type
pool / instantiate a generic replacement are explored with <= 1 deviation).  Every leaf works on
a fresh copy of the erased program.
Oracle when the mutation reports an injected error: the structural diff is exactly one declared
type (variable: var_type+inferred_type; function: ret_type+inferred_type) or one explicit type
argument; old and new type are unrelated under R-SUB (flagged when definitely related); the
message names old type, new type and the mutated node; the translation changes; the reference
checker reports a NEW definite error; javac rejects the Java translation.  When nothing is
reported: empty diff and byte-identical translation.
"""
import os
import pickle
import re

from mc import explore, pipeline, snapshot, irwalk, inner
from mc.common import Result, Violation
from mc.pipeline import Config
from mc.props import c01
from mc.props.c13 import program_flat
from mc.ref import rsub

PROP = 'C04'
SPEC = 'mc.props.c04:Oracle'

TYPE_ATTRS = ('var_type', 'ret_type', 'inferred_type', 'type_args')


def resolve(obj, path):
    for p in path:
        if isinstance(p, str):
            obj = getattr(obj, p) if not isinstance(obj, dict) else obj[p]
        elif isinstance(p, int):
            obj = list(obj)[p]
        elif isinstance(p, tuple) and p[0] == 'K':
            obj = obj[p[1]]
        else:
            raise KeyError(p)
    return obj


def owners_of(diffs, f_before, f_after):
    """group differing paths by the declared-type slot they lie under; -> (owners, other_paths)"""
    owners = {}
    other = []
    for path, a, b in diffs:
        if 'type_parameters' in path:
            i = path.index('type_parameters')
            if (f_after.get(path[:i]) or f_before.get(path[:i])) == ('OBJ', 'FunctionCall'):
                continue
        idx = [i for i, c in enumerate(path) if c in TYPE_ATTRS]
        if not idx:
            other.append(path)
            continue
        i = idx[0]
        slot = path[:i + 1] if path[i] != 'type_args' else path[:i + 2]
        owners.setdefault(slot, []).append(path)
    return owners, other


_JAVA_NUMERIC = {'Byte', 'Short', 'Integer', 'Long', 'Float', 'Double', 'Character', 'Number'}


def _java_why(old_t, new_t, ref_rejects):
    from src.ir import types as tp
    on, nn = getattr(old_t, 'name', '?'), getattr(new_t, 'name', '?')
    if isinstance(old_t, tp.Builtin) and isinstance(new_t, tp.Builtin) and on in _JAVA_NUMERIC and nn in _JAVA_NUMERIC:
        return 'Java assignment conversion between numeric types (boxing, unboxing, widening, constant narrowing)'
    if isinstance(new_t, tp.Builtin) and nn == 'Object':
        return 'new type is the top type'
    if isinstance(old_t, tp.Builtin) and on == 'Object':
        return 'old type is the top type'
    return 'other (%s -> %s); reference checker %s' % (
        'builtin' if isinstance(old_t, tp.Builtin) else type(old_t).__name__,
        'builtin' if isinstance(new_t, tp.Builtin) else type(new_t).__name__, 'rejects' if ref_rejects else 'accepts')


class Judge:
    """judges one (erased program copy, overwritten program, transformer) triple"""

    def __init__(self, lang, stats, srv_factory):
        self.lang = lang
        self.stats = stats
        self.srv_factory = srv_factory

    def run(self, P1, T1, P2, tr, T2):
        from mc.ref import rtc
        vs = []
        f1 = program_flat(P1)
        f2 = program_flat(P2)
        d = snapshot.diff(f1, f2)
        owners, other = owners_of(d, f1, f2)
        flagged = bool(tr.is_transformed)
        if not flagged:
            self.stats['leaves_not_transformed'] += 1
            if owners or other:
                vs.append(self.v('program-changed-without-report', 'diff not empty although nothing is reported',
                                 paths=[irwalk.fmt_path(p) for p in list(owners)[:3] + other[:3]]))
            if T2 != T1:
                vs.append(self.v('translation-changed-without-report', 'text differs although nothing is reported'))
            return vs
        self.stats['leaves_transformed'] += 1
        if other:
            vs.append(self.v('changes-outside-declared-types', 'attribute(s) %s' % sorted(
                {str([c for c in p if isinstance(c, str)][-1]) for p in other})[:4],
                paths=[irwalk.fmt_path(p) for p in other[:4]]))
        slots = sorted(owners, key=repr)
        kind = None
        decl_path = None
        if len(slots) == 2 and slots[0][:-1] == slots[1][:-1] and {slots[0][-1], slots[1][-1]} in (
                {'var_type', 'inferred_type'}, {'ret_type', 'inferred_type'}):
            kind = 'variable type' if 'var_type' in (slots[0][-1], slots[1][-1]) else 'return type'
            decl_path = slots[0][:-1]
            slot = [s for s in slots if s[-1] != 'inferred_type'][0]
        elif len(slots) == 1 and slots[0][-1] == 'inferred_type':
            # a declaration whose annotation was already erased: only the recorded type changes
            kind = 'recorded type of an erased declaration'
            decl_path = slots[0][:-1]
            slot = slots[0]
        elif len(slots) == 1 and len(slots[0]) >= 2 and slots[0][-2] == 'type_args':
            kind = 'type argument'
            slot = slots[0]
        else:
            vs.append(self.v('not-exactly-one-declared-type', '%d declared-type slots differ' % len(slots),
                             slots=[irwalk.fmt_path(s) for s in slots[:6]]))
            return vs
        self.stats['kind:' + kind] = self.stats.get('kind:' + kind, 0) + 1
        try:
            # the recorded type is the old type (the annotation itself may have been erased already)
            old_slot = slot if decl_path is None else decl_path + ('inferred_type',)
            old_t = resolve(P1, old_slot)
            new_t = resolve(P2, slot)
        except Exception as e:  # noqa
            vs.append(self.v('harness-cannot-resolve-slot', str(e)))
            return vs
        # message
        msg = tr.error_injected or ''
        want_prefix = '%s expected but %s found in node ' % (str(old_t), str(new_t))
        if not msg.startswith(want_prefix):
            vs.append(self.v('message-does-not-name-types', kind, message=msg[:200], expected_prefix=want_prefix[:200]))
        else:
            node_id = msg[len(want_prefix):]
            if decl_path is not None:
                name = getattr(resolve(P2, decl_path), 'name', None)
                if name is None or not node_id.endswith('/' + str(name)):
                    vs.append(self.v('message-names-wrong-node', kind, message=msg[:200], node=str(name)))
            else:
                holder = resolve(P2, slot[:-2])
                cname = getattr(holder, 'name', None)
                if cname is None or not node_id.endswith('/' + str(cname)):
                    vs.append(self.v('message-names-wrong-node', kind, message=msg[:200], node=str(cname)))
        # unrelated?
        ck2 = rtc.Checker(P2)
        try:
            ot, nt = rtc.conv_any(old_t), rtc.conv_any(new_t)
            prim = getattr(old_t, 'primitive', False) or getattr(new_t, 'primitive', False)
            if prim or rsub.show(ot) == rsub.show(nt):
                # Java primitives (boxing is not subtyping; judged by javac) / types the reference terms cannot tell apart
                self.stats['relation_unknown'] += 1
            elif rsub.must(ck2.tb, nt, ot) or rsub.must(ck2.tb, ot, nt):
                top = ck2.tb.top
                sub_ = rsub.must(ck2.tb, nt, ot)
                if nt == ('c', top, ()):
                    how = 'new type is the top type'
                elif ot == ('c', top, ()):
                    how = 'old type is the top type'
                elif ot[0] == 'v':
                    how = 'old type is a type variable whose bound chain reaches the new type'
                elif sub_ and nt[0] == 'c' and nt[2] and ot[0] == 'c' and not ot[2]:
                    how = 'new type instantiates a generic subclass of the old (simple) type'
                else:
                    how = 'new type is a %s of the old type (%s -> %s)' % (
                        'subtype' if sub_ else 'supertype', 'parameterized' if (ot[0] == 'c' and ot[2]) else 'simple',
                        'parameterized' if (nt[0] == 'c' and nt[2]) else 'simple')
                vs.append(self.v('replacement-type-is-related', '%s: %s' % (kind, how), old=rsub.show(ot), new=rsub.show(nt)))
        except rtc.Unknown:
            self.stats['relation_unknown'] += 1
        # text
        same_text = (T2 == T1)
        if same_text:
            vs.append(self.v('translation-unchanged', '%s overwritten but the %s text is identical' % (kind, self.lang)))
        # reference checker must see a new error
        ck1 = rtc.Checker(P1).run()
        ck2.run()
        a1 = {(a[0], a[1], a[2], a[3]) for a in ck1.alarms}
        new_alarms = [a for a in ck2.alarms if (a[0], a[1], a[2], a[3]) not in a1]
        if new_alarms:
            self.stats['rejected_by_reference_checker'] += 1
        else:
            self.stats['not_rejected_by_reference_checker'] += 1
        # javac
        if self.lang == 'java':
            srv = self.srv_factory()
            path = srv.write_program(T2.replace('package src.b;', 'package src.a;', 1), 'a')
            ok, diags, _ = srv.compile([path])
            srv.remove(path)
            errs = [x for x in diags if x.kind in ('ERROR', 'CRASH')]
            self.stats['javac_compiled'] += 1
            if ok and not errs:
                why = 'text identical to the well-typed program' if same_text else _java_why(old_t, new_t, bool(new_alarms))
                vs.append(self.v('javac-accepts-overwritten-program', '%s; %s' % (kind, why),
                                 old=str(old_t)[:80], new=str(new_t)[:80], message=msg[:160]))
            else:
                self.stats['rejected_by_javac'] += 1
        return vs

    def v(self, rule, shape, **kw):
        d = {'rule': rule, 'site': 'src/transformations/type_overwriting.py', 'shape': shape, 'language': self.lang}
        d.update(kw)
        return d


class Oracle:
    def __init__(self, params):
        pipeline.setup_env()
        self.full = params.get('full_expansion', False)
        self.cap = params.get('leaf_cap', 1500)
        self.srv = None
        self.stats = {'leaves_transformed': 0, 'leaves_not_transformed': 0, 'relation_unknown': 0,
                      'rejected_by_reference_checker': 0, 'not_rejected_by_reference_checker': 0,
                      'javac_compiled': 0, 'rejected_by_javac': 0, 'full_expansions': 0, 'full_expansion_leaves': 0,
                      'full_expansions_capped': 0}

    def _srv(self):
        from mc import javac
        if self.srv is None:
            self.srv = javac.JavacServer()
        return self.srv

    def finish_unit(self):
        if self.srv is not None:
            self.srv.close()

    def judge(self, x):
        if x.error is not None or x.P1_pickle is None or x.P2 is None:
            return []
        lang = x.config.lang
        j = Judge(lang, self.stats, self._srv)
        P1 = pickle.loads(x.P1_pickle)
        T2 = x.T2.replace('package src.b', 'package src.a', 1)
        vs = j.run(P1, x.T1, x.P2, x.extra['overwriter'], T2)
        if self.full and not x.dev:
            vs.extend(self.expand(x, lang))
        out, seen = [], set()
        for v in vs:
            k = (v['rule'], v['shape'])
            if k not in seen:
                seen.add(k)
                out.append(v)
        return out

    def expand(self, x, lang):
        """complete choice tree of the overwriting stage on copies of the erased program"""
        from src.transformations.type_overwriting import TypeOverwriting
        utils = pipeline._env['utils']
        args = pipeline.cli_args()
        vs = []
        self.stats['full_expansions'] += 1
        j = Judge(lang, self.stats, self._srv)
        holder = {}

        def call():
            P = pickle.loads(x.P1_pickle)
            tr = TypeOverwriting(P, lang, None, args.options['TypeOverwriting'])
            tr.transform()
            holder['P'] = tr.result()
            return tr
        saved = (utils.random.r, utils.random.word)
        try:
            for trace, (kind, tr) in inner.explore_all(utils, call, self.cap, inner.LIMITED_DEFAULT + ('get_types',)):
                self.stats['full_expansion_leaves'] += 1
                if kind != 'ok':
                    if kind == 'exc':
                        vs.append({'rule': 'overwriting-raises', 'site': 'src/transformations/type_overwriting.py',
                                   'shape': type(tr).__name__, 'language': lang, 'inner_schedule': trace, 'message': str(tr)[:200]})
                    continue
                P2 = holder['P']
                pipeline.oracle_choices(x)
                T2 = pipeline.translate(pipeline.new_translator(lang, 'src.a'), P2)
                for v in j.run(pickle.loads(x.P1_pickle), x.T1, P2, tr, T2):
                    v['inner_schedule'] = trace
                    vs.append(v)
            if inner.explore_all.capped:
                self.stats['full_expansions_capped'] += 1
        finally:
            utils.random.r, utils.random.word = saved
        return vs


def plan(tier):
    langs = pipeline.LANGS
    z = (0, 0, 0, 0)
    if tier == 'quick':
        return [
            # (configs, policies, bound, nslices, full expansion on base executions)
            ([Config(l, z, 'XS') for l in langs], [('prng', 1), ('prng', 3), ('prng', 5), 'alt'], 0, 1, True),
            ([Config(l, z, 'XS') for l in langs], [('prng', 2)], 1, 4, False),
            ([Config(l, z, 'S') for l in langs], [('prng', 4)], 1, 8, False),
        ]
    return [
        ([Config(l, z, 'XS') for l in langs], ['first', 'alt'] + [('prng', c) for c in range(1, 9)], 0, 1, True),
        ([Config(l, z, 'S') for l in langs], [('prng', 1), ('prng', 2)], 0, 1, True),
        ([Config(l, s, 'S') for l in langs for s in (z, (1, 1, 1, 1))], [('prng', 3), ('prng', 4)], 1, 8, False),
        ([Config(l, z, 'M') for l in langs], [('prng', 5)], 1, 16, False),
        ([Config(l, z, lim) for l in langs for lim in ('M', 'D')], [('prng', c) for c in range(1, 13)], 0, 1, False),
    ]


def run(tier, seed, jobs):
    res = Result(PROP, tier, seed, level='model_checking')
    execs = trans = capped = validated = 0
    states = set()
    stats = {}
    samples = []
    plans = []
    cap = 400 if tier == 'quick' else 1500
    from mc import progfam
    # hand-built family (mc/progfam.py): the complete overwriting tree of every (core / thorough: every) program
    fam = [(progfam.family_configs(pipeline.LANGS, 'all' if tier == 'thorough' else 'mini'), ['first'], 0, 1, True, 6 if tier == 'quick' else 24)]
    only = os.environ.get('VERIF_C04_ONLY')
    for part in fam + ([] if only == 'family' else plan(tier)):
        configs, policies, bound, nslices, full = part[:5]
        chunk = part[5] if len(part) > 5 else None
        params = {'full_expansion': full, 'leaf_cap': cap}
        tot = explore.explore(configs, policies, bound, SPEC, params, jobs, seed, nslices, chunk=chunk)
        execs += tot.execs
        trans += tot.transitions
        states |= tot.states
        capped += tot.capped
        res.harness_errors.extend(tot.errors)
        for v in tot.violations:
            res.add(Violation(PROP, v['rule'], v['site'], v['shape'],
                              {k: v[k] for k in v if k not in ('rule', 'site', 'shape')}))
        explore._merge_stats(stats, tot.stats)
        samples.extend(tot.samples[:1])
        plans.append({'configs': len(configs), 'limits': configs[0].limits, 'policies': len(policies),
                      'deviation_bound': bound, 'full_expansion_of_overwriting': full, 'executions': tot.execs})
        validated += explore.validate_fresh(tot, res)
    res.coverage = {
        'states': len(states), 'transitions': trans + stats.get('full_expansion_leaves', 0),
        'traces_validated_against_impl': validated,
        'executions': execs, 'samples': samples[:2], 'exploration_plan': plans,
        'exhaustive': capped == 0 and stats.get('full_expansions_capped', 0) == 0, 'caps_hit': capped,
        'overwriting': stats, 'leaf_cap': cap,
        'explanation': 'states = distinct program texts; transitions = choice points answered + leaves of the complete '
                       'overwriting choice trees; overwriting.* counts leaves judged, rejected by the reference checker / '
                       'javac, and the kinds of mutated slots',
    }
    res.assumptions = ['OpenJDK 17 javac is the definite judge for Java; for the other languages a mutation the reference '
                       'checker does not reject is counted (not_rejected_by_reference_checker), not reported, unless the text '
                       'is unchanged']
    return res


def replay(path):
    import json
    d = json.load(open(path))['detail']
    o = Oracle({'full_expansion': bool(d.get('inner_schedule'))})
    x = explore.run_schedule(d['schedule'])
    vs = o.judge(x)
    o.finish_unit()
    for v in vs:
        print('REPLAY', v['rule'], v['shape'])
    return 1 if vs else 0
