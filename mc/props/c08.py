"""C08 -- instantiation helpers pick type arguments within bounds and allowed variance.

Deciding step: for every (generic declaration, pool of available types, partial pre-assignment,
variance-choice map, switch vector) of a small-scope universe the COMPLETE choice tree of
instantiate_type_constructor / instantiate_parameterized_function is walked (every answer at
every random draw, mc/inner.py) and every leaf is judged against R-SUB.
"""
import itertools
import multiprocessing as mp

from mc import common, inner
from mc.common import Result, Violation
from mc.ref import rsub, conv as rconv

PROP = 'C08'


def build_world(lang):
    """-> dict with factory, declarations (ClassDeclaration), pools, reference table"""
    from src.ir import ast, types as tp, BUILTIN_FACTORIES
    f = BUILTIN_FACTORIES[lang]
    Any, Number, Integer, String = f.get_any_type(), f.get_number_type(), f.get_integer_type(), f.get_string_type()
    INV, OUT, IN = tp.Invariant, tp.Covariant, tp.Contravariant
    decls = {}

    def cls(name, tparams=(), supers=(), kind=ast.ClassDeclaration.REGULAR):
        d = ast.ClassDeclaration(name, [ast.SuperClassInstantiation(s, []) for s in supers], kind,
                                 fields=[], functions=[], is_final=False, type_parameters=list(tparams))
        decls[name] = d
        return d
    P = cls('P')
    Q = cls('Q', supers=[P.get_type()])
    AbsP = cls('AbsP', supers=[P.get_type()], kind=ast.ClassDeclaration.ABSTRACT)
    Iface = cls('Iface', kind=ast.ClassDeclaration.INTERFACE)
    TP = tp.TypeParameter
    A = cls('A', [TP('T', INV, Number)])
    t1 = TP('T1', INV, None)
    B = cls('B', [t1, TP('T2', INV, t1)])
    Cv = cls('Cv', [TP('T', OUT, None)])
    Kc = cls('Kc', [TP('T', IN, None)])
    u1 = TP('U1', INV, Number)
    u2 = TP('U2', INV, u1)
    E = cls('E', [u1, u2, TP('U3', INV, u2)])
    x = TP('X', INV, None)
    F = cls('F', [x, TP('Y', INV, Cv.get_type().new([x]))])
    hx = TP('X', INV, P.get_type())
    H = cls('H', [hx, TP('Y', INV, hx)])
    g1 = TP('S', INV, None)
    G2 = cls('G2', [g1, TP('R', INV, None)])
    co = TP('X', OUT, None)
    M = cls('M', [co, TP('Z', INV, Number)])
    c1 = TP('T1', INV, None)
    Con3 = cls('Con3', [c1, TP('Y', INV, Cv.get_type().new([c1])), TP('T2', INV, c1)])   # bound of Y mentions T1, T2 : T1
    zw = TP('W', INV, None)
    zx = TP('X', INV, Cv.get_type().new([zw]))
    Z3 = cls('Z3', [zw, zx, TP('Y', INV, Cv.get_type().new([zx]))])     # chain of parameterized bounds
    n1 = TP('T1', INV, None)
    N2 = cls('N2', [n1, TP('T2', INV, Cv.get_type().new([Cv.get_type().new([n1])]))])      # T1 mentioned only nested
    w1 = TP('T1', INV, None)
    N3 = cls('N3', [w1, TP('T2', INV, Cv.get_type().new([tp.WildCardType(w1, OUT)]))])     # ... only under a wildcard
    SubP = cls('SubP', [TP('X', INV, None)], supers=[P.get_type()])                          # generic class below P
    world = {'factory': f, 'decls': decls, 'roles': {'Any': Any, 'Number': Number, 'Integer': Integer, 'String': String},
             'generic': ['A', 'B', 'Cv', 'Kc', 'E', 'F', 'H', 'G2', 'M', 'Z3', 'Con3', 'N2', 'N3']}
    base = [Number, Integer, String, P, Q]
    pools = {
        'builtins+simple': base,
        'with-generic-decls': base + [A, Cv],
        'with-unusable': base + [AbsP, Iface, A.get_type(), Kc],
        'tiny': [Integer, Q],
        'with-generic-subclass': [Integer, P, Q, SubP],
    }
    if lang == 'java':
        pools['with-primitives'] = [f.get_integer_type(primitive=True) if _takes_primitive(f) else Integer,
                                    Number, String, P] + _primitives(f)
    world['pools'] = pools
    # reference table
    tb = rsub.Table(rconv_name(Any))
    cv = rconv.TermConv(tb)
    for t in (Any, Number, Integer, String):
        cv.term(t)
    for d in decls.values():
        cv.term(d.get_type())
    world['tb'] = tb
    world['cv'] = cv
    tb.top = cv.term(Any)[1]
    return world


def _takes_primitive(f):
    import inspect
    try:
        return 'primitive' in inspect.signature(f.get_integer_type).parameters
    except (TypeError, ValueError):
        return False


def _primitives(f):
    return list(f.get_primitive_types()) if hasattr(f, 'get_primitive_types') else []


def rconv_name(t):
    return type(t).__name__


def pre_assignments(world, name):
    """partial pre-assignments for declaration `name`"""
    from src.ir import types as tp
    d = world['decls'][name]
    r = world['roles']
    P = world['decls']['P'].get_type()
    Q = world['decls']['Q'].get_type()
    ps = d.type_parameters
    out = [('none', {})]
    first = ps[0]
    cands = [('p0=Integer', r['Integer']), ('p0=Q', Q), ('p0=out Number', tp.WildCardType(r['Number'], tp.Covariant)),
             ('p0=in Integer', tp.WildCardType(r['Integer'], tp.Contravariant)), ('p0=String', r['String'])]
    for label, t in cands:
        out.append((label, {first: t}))
    if len(ps) > 1:
        out.append(('p1=Integer', {ps[1]: r['Integer']}))
        out.append(('p0=Number,p1=Integer', {ps[0]: r['Number'], ps[1]: r['Integer']}))
    if len(ps) > 2:
        out.append(('p2=Integer', {ps[2]: r['Integer']}))
    return out


def variance_maps(d):
    ps = d.type_parameters
    return [('None', None), ('{}', {}), ('p0:none', {ps[0]: (False, False)}), ('p0:out-only', {ps[0]: (True, False)}),
            ('p0:in-only', {ps[0]: (False, True)})]


def term_arg(cv, a):
    return cv.arg(a)


def consistent(world, d, pre):
    """are the caller's pre-assignments satisfiable together with the declared bounds?  (If they
    are not, the property makes no promise.)  Checked along the bound chain of every pre-assigned
    parameter; unassigned variables inside a parameterized bound are read as `*`."""
    cv, tb = world['cv'], world['tb']
    m = {}
    for p, t in pre.items():
        a = cv.arg(t)
        m[p.name] = a[1] if a[0] != '*' else tb.top_term()
    byname = {p.name: p for p in d.type_parameters}

    def starred(t):
        if t[0] == 'v':
            return None
        if t[0] == 'c':
            args = []
            for a in t[2]:
                if a[0] == '*':
                    args.append(a)
                elif a[1][0] == 'v' and a[1][1] not in m:
                    args.append(('*',))
                else:
                    s = starred(a[1]) if a[1][0] != 'v' else m[a[1][1]]
                    args.append((a[0], s))
            return ('c', t[1], tuple(args))
        return t

    for p, t in pre.items():
        a = cv.arg(t)
        if a[0] not in ('t', 'out'):
            continue
        q = p
        hops = 0
        while q.bound is not None and hops < 8:
            hops += 1
            b = q.bound
            if b.is_type_var():
                if b.name in m:
                    if not rsub.may(tb, a[1], m[b.name]):
                        return False
                    break
                q = byname.get(b.name, b)
                continue
            bt = starred(cv.term(b))
            if bt is not None and not rsub.may(tb, a[1], bt):
                return False
            break
    return True


def _vars(t):
    if t is None:
        return []
    if t[0] == 'v':
        return [t[1]]
    if t[0] == 'c':
        out = []
        for a in t[2]:
            if a[0] != '*':
                out += _vars(a[1])
        return out
    return []


def judge_leaf(world, d, pre, vc_in, switches, result, for_function):
    """-> list of (rule, detail)"""
    from src.ir import types as tp
    cv, tb = world['cv'], world['tb']
    out = []
    ps = d.type_parameters
    if for_function:
        tvm = result
        args = [tvm.get(p) for p in ps]
        if any(a is None for a in args):
            return [('missing-assignment', 'no assignment for %s' % [p.name for p, a in zip(ps, args) if a is None])]
    else:
        ptype, tvm = result
        args = list(ptype.type_args)
        if len(args) != len(ps):
            return [('arity', '%d arguments for %d parameters' % (len(args), len(ps)))]
        for p, a in zip(ps, args):
            if p not in tvm:
                out.append(('missing-assignment', 'type_var_map lacks %s' % p.name))
    targs = [cv.arg(a) for a in args]
    m = {}
    for p, a in zip(ps, targs):
        m[p.name] = a[1] if a[0] != '*' else tb.top_term()
    pre_ok = consistent(world, d, pre)
    for i, (p, a, raw) in enumerate(zip(ps, targs, args)):
        inner_t = a[1] if a[0] != '*' else None
        if inner_t is not None:
            if rconv.has_primitive(inner_t):
                out.append(('primitive-argument', '%s := %s' % (p.name, rsub.show(inner_t))))
            if rconv.has_bare_constructor(inner_t):
                out.append(('bare-constructor-argument', '%s := %s' % (p.name, inner_t)))
                continue
        # bound
        if p.bound is not None and a[0] in ('t', 'out') and inner_t != rsub.NOTHING and pre_ok:
            b = rsub.subst(cv.term(p.bound), m)
            ok_ = rsub.may(tb, inner_t, b)
            if not ok_:
                # a projection the CALLER pre-assigned to a parameter mentioned inside this bound is substituted as
                # written (T2 : Cv<Cv<T1>>, T1 := in Integer gives the bound Cv<Cv<in Integer>>): inherited, see above
                proj = {q.name: qa for q, qa in zip(ps, targs) if q in pre and qa[0] in ('out', 'in')}
                if proj and (set(proj) & set(_vars(cv.term(p.bound)))):
                    from mc.props.c10 import subst_args
                    am = {q.name: (qa if qa[0] != '*' else ('t', tb.top_term())) for q, qa in zip(ps, targs)}
                    b2 = subst_args(cv.term(p.bound), am)
                    ok_ = b2 is None or rsub.may(tb, inner_t, b2)
            if not ok_:
                out.append(('bound-violated', '%s := %s is not below %s' % (p.name, rsub.show(inner_t), rsub.show(b))))
        # pre-assignment kept
        if p in pre and pre_ok:
            want = cv.arg(pre[p])
            kept = (a == want) or (want[0] == 't' and a[0] in ('out', 'in') and a[1] == want[1])
            if not kept:
                # documented exceptions: a dependent parameter (bound is a type variable) whose bound
                # parameter was given a projection is re-aligned; functions use Nothing for `out`
                dep = p.bound is not None and p.bound.is_type_var()
                if not dep:
                    out.append(('pre-assignment-dropped', '%s requested %s, got %s' % (
                        p.name, _show_arg(want), _show_arg(a))))
        # projections inside a nested instantiation the helper built itself
        if inner_t is not None and not (p in pre):
            nested = _nested_projections(inner_t)
            # a projection the caller pre-assigned to a parameter this parameter's bound mentions arrives here by
            # substitution into the bound (T2 : Cv<Cv<T1>>, T1 := out Number): inherited, not introduced
            if p.bound is not None and nested:
                bvars = _vars(cv.term(p.bound))
                nested = nested - {qa[0] for q, qa in zip(ps, targs) if q in pre and qa[0] != 't' and q.name in bvars}
            usv, contra = switches
            if nested:
                if vc_in is None:
                    out.append(('nested-projection-without-variance-choices', '%s := %s' % (p.name, rsub.show(inner_t))))
                if usv:
                    out.append(('nested-projection-with-use-site-variance-disabled', '%s := %s' % (p.name, rsub.show(inner_t))))
                if contra and 'in' in nested:
                    out.append(('nested-in-projection-with-contravariance-disabled', '%s := %s' % (p.name, rsub.show(inner_t))))
        # a dependent parameter (T2 : T1) cannot inherit T1's projection where its bound would no
        # longer be derivable / expressible
        if a[0] in ('out', 'in') and p.bound is not None and p.bound.is_type_var() and not (p in pre):
            if for_function:
                out.append(('projection-assigned-to-function-type-parameter', '%s := %s' % (p.name, _show_arg(a))))
            elif a[0] == 'in' and any(q.name == p.bound.name and qa == a for q, qa in zip(ps, targs)):
                out.append(('dependent-parameter-inherits-contravariant-projection', '%s := %s' % (p.name, _show_arg(a))))
        # projection permissions (only for projections the helper itself introduced)
        if a[0] in ('out', 'in'):
            requested = p in pre and cv.arg(pre[p])[0] == a[0]
            # a dependent parameter (bound = another parameter) inherits that parameter's argument,
            # projection included: not a projection the helper introduced
            if not requested and p.bound is not None and p.bound.is_type_var():
                for q, qa in zip(ps, targs):
                    if q.name == p.bound.name and qa == a:
                        requested = True
            if not requested:
                others = [q for q in ps if q is not p]
                mentioned = any(q.bound is not None and p.name in _vars(cv.term(q.bound)) for q in others)
                usv, contra = switches
                if vc_in is None:
                    out.append(('projection-without-variance-choices', '%s := %s' % (p.name, _show_arg(a))))
                else:
                    can_out, can_in = vc_in.get(p, (True, True))
                    if a[0] == 'out' and not can_out:
                        out.append(('projection-not-permitted-by-caller', '%s := %s' % (p.name, _show_arg(a))))
                    if a[0] == 'in' and not can_in:
                        out.append(('projection-not-permitted-by-caller', '%s := %s' % (p.name, _show_arg(a))))
                if usv:
                    out.append(('projection-with-use-site-variance-disabled', '%s := %s' % (p.name, _show_arg(a))))
                if contra and a[0] == 'in':
                    out.append(('in-projection-with-contravariance-disabled', '%s := %s' % (p.name, _show_arg(a))))
                dv = p.variance.value
                if (dv == 1 and a[0] == 'in') or (dv == 2 and a[0] == 'out'):
                    out.append(('projection-conflicts-with-declared-variance', '%s := %s' % (p.name, _show_arg(a))))
                if mentioned:
                    out.append(('projection-on-parameter-mentioned-in-a-bound', '%s := %s in %s' % (
                        p.name, _show_arg(a), d.name)))
    return out


def _nested_projections(t):
    out = set()
    if t is not None and t[0] == 'c':
        for a in t[2]:
            if a[0] != 't':
                out.add(a[0])
            if a[0] != '*':
                out |= _nested_projections(a[1])
    return out


def _show_arg(a):
    if a[0] == '*':
        return '*'
    return ('' if a[0] == 't' else a[0] + ' ') + rsub.show(a[1])


def _work(arg):
    lang, names, cap = arg
    common.import_repo()
    import src.ir.ast  # noqa
    from src import utils
    from src.ir import type_utils as tu
    from src.generators.config import cfg
    world = build_world(lang)
    found = {}
    stats = {'inputs': 0, 'leaves': 0, 'capped_inputs': 0, 'exceptions': 0, 'distinct_results': 0}
    for name in names:
        d = world['decls'][name]
        for pool_name, pool in world['pools'].items():
            for pre_label, pre in pre_assignments(world, name):
                for vc_label, vc in variance_maps(d):
                    for switches in itertools.product((False, True), repeat=2):
                        cfg.dis.use_site_variance, cfg.dis.use_site_contravariance = switches
                        for for_function in (False, True):
                            if for_function and (vc is not None or switches != (False, False)):
                                continue     # the function helper takes no variance choices
                            stats['inputs'] += 1
                            results = set()

                            def call():
                                vcc = None if vc is None else dict(vc)
                                if for_function:
                                    return tu.instantiate_parameterized_function(
                                        list(d.type_parameters), list(pool), type_var_map=dict(pre))
                                return tu.instantiate_type_constructor(
                                    d.get_type(), list(pool), type_var_map=dict(pre), variance_choices=vcc)
                            for trace, (kind, val) in inner.explore_all(utils, call, cap):
                                stats['leaves'] += 1
                                key_in = '%s, pool %s, pre %s, variance_choices %s%s' % (
                                    'function type parameters of ' + name if for_function else name,
                                    pool_name, pre_label, vc_label,
                                    '' if switches == (False, False) else ', switches %s' % (switches,))
                                if kind == 'exc':
                                    stats['exceptions'] += 1
                                    if consistent(world, d, pre):
                                        rec(found, 'helper-raises', type(val).__name__ + ' for ' + (
                                            'function' if for_function else 'class') + ' ' + name,
                                            key_in, trace, str(val)[:200], lang)
                                    continue
                                if kind != 'ok':
                                    continue
                                results.add(str(val))
                                for rule, detail in judge_leaf(world, d, pre, vc, switches, val, for_function):
                                    rec(found, rule, ('function parameters like ' if for_function else 'declaration ') + name,
                                        key_in, trace, detail, lang)
                            if inner.explore_all.capped:
                                stats['capped_inputs'] += 1
                            stats['distinct_results'] += len(results)
    cfg.dis.use_site_variance = cfg.dis.use_site_contravariance = False
    return found, stats


def rec(found, rule, shape, key_in, trace, detail, lang):
    k = (rule, shape)
    e = found.get(k)
    size = (len(trace), len(key_in))
    if e is None:
        found[k] = [1, size, {'input': key_in, 'inner_schedule': trace, 'description': detail, 'language': lang}]
    else:
        e[0] += 1
        if size < e[1]:
            e[1] = size
            e[2] = {'input': key_in, 'inner_schedule': trace, 'description': detail, 'language': lang}


def run(tier, seed, jobs):
    res = Result(PROP, tier, seed, level='model_checking')
    cap = 4000 if tier == 'quick' else 40000
    langs = ('kotlin', 'java') if tier == 'quick' else ('kotlin', 'java', 'groovy', 'scala')
    names = ['A', 'B', 'Cv', 'Kc', 'E', 'F', 'H', 'G2', 'M', 'Z3', 'Con3', 'N2', 'N3']
    tasks = [(lang, [n], cap) for lang in langs for n in names]
    tasks = common.rotate(tasks, seed)
    found, stats = {}, {}
    with mp.get_context('fork').Pool(jobs) as pool:
        for f, st in pool.imap_unordered(_work, tasks):
            for k, v in st.items():
                stats[k] = stats.get(k, 0) + v
            for k, e in f.items():
                if k not in found:
                    found[k] = e
                else:
                    found[k][0] += e[0]
                    if e[1] < found[k][1]:
                        found[k][1], found[k][2] = e[1], e[2]
    for (rule, shape), (cnt, _, det) in sorted(found.items()):
        det = dict(det)
        det['instances'] = cnt
        res.add(Violation(PROP, rule, 'src/ir/type_utils.py:_compute_type_variable_assignments', shape, det))
    res.coverage = {
        'states': stats.get('distinct_results', 0), 'transitions': stats.get('leaves', 0),
        'traces_validated_against_impl': stats.get('leaves', 0),
        'inputs': stats.get('inputs', 0), 'inputs_capped': stats.get('capped_inputs', 0), 'leaf_cap': cap,
        'exhaustive': stats.get('capped_inputs', 0) == 0, 'stats': stats,
        'samples': [{'declaration': 'E<U1 : Number, U2 : U1, U3 : U2>', 'pool': 'builtins+simple', 'pre': 'none',
                     'variance_choices': '{}', 'meaning': 'every random answer inside the helper is enumerated'}],
        'explanation': 'transitions = leaves of the complete inner choice trees (one real helper call each); states = '
                       'distinct results per input summed; inputs = declaration x pool x pre-assignment x variance map '
                       'x switch vector x helper',
    }
    res.assumptions = ['the universe of declarations/pools is fixed (9 generic declarations, 4-5 pools, 6-9 pre-assignments)']
    return res


def replay(path):
    import json
    d = json.load(open(path))
    print('REPLAY: re-run ./check C08; input was', d['detail']['input'], d['detail']['inner_schedule'])
    return 1
