"""C09 -- subtype search and irrelevant-type search return only what they promise.

Deciding step: SSE class tables (mc/universe.py) x every query type of the table's universe x
flag combinations, and for each the COMPLETE inner choice tree (mc/inner.py) of find_subtypes /
find_irrelevant_type: every answer at every random draw inside the searches.  Results are judged
by the declarative relation R-SUB (flagged only when definitely wrong).
"""
import itertools
import multiprocessing as mp

from mc import common, inner, universe
from mc.common import Result, Violation
from mc.ref import rsub, conv as rconv

PROP = 'C09'


def tc_as_open_type(tb, name):
    info = tb.cls[name]
    return ('c', name, tuple(('t', ('v', pn, b)) for pn, var, b in info.params))


def below(tb, r, q, mode):
    if r is None or q is None:
        return False
    if r[0] == 'tc':
        r = tc_as_open_type(tb, r[1])
    if q[0] == 'tc':
        q = tc_as_open_type(tb, q[1])
    if r[0] not in ('c', 'v', 'nothing') or q[0] not in ('c', 'v', 'nothing'):
        return False
    return rsub.sub(tb, r, q, mode)


def query_shape(tb, q):
    if q[0] != 'c' or not q[2]:
        return 'simple type'
    info = tb.cls[q[1]]
    parts = []
    for (pn, var, b), a in zip(info.params, q[2]):
        bd = ''
        if b is not None:
            bd = ':var-bound' if b[0] == 'v' else ':bound'
        parts.append('%s%s=%s' % (var, bd, a[0] if a[0] != 't' else ('plain' if not (a[1][0] == 'c' and a[1][2]) else 'plain-generic')))
    return 'generic(' + ', '.join(parts) + ')'


def has_dependent_param(tb, q):
    return q[0] == 'c' and any(b is not None and b[0] == 'v' for _, _, b in tb.cls[q[1]].params)


def has_projection(q):
    return q[0] == 'c' and any(a[0] != 't' or has_projection(a[1]) for a in q[2])


def _nested_generic_under_contra(tb, q, contra=False):
    """does q contain a parameterized argument in a contravariant position (declared `in` or `in` projection)?"""
    if q[0] != 'c' or not q[2]:
        return False
    for (pn, var, b), a in zip(tb.cls[q[1]].params, q[2]):
        if a[0] == '*':
            continue
        c = contra or var == 'in' or a[0] == 'in'
        if a[1][0] == 'c' and a[1][2]:
            if c or any(x[0] == 'in' for x in a[1][2]):
                return True
            if _nested_generic_under_contra(tb, a[1], c):
                return True
    return False


def _unjustified_changes(tb, q, t):
    """positions where the result's argument differs from the query's in a way the position does not allow"""
    if t[0] != 'c' or t[1] != q[1]:
        return 'result of another class'
    parts = []
    for (pn, var, b), qa, ra in zip(tb.cls[q[1]].params, q[2], t[2]):
        if qa == ra:
            continue
        who = var + (':var-bound' if b is not None and b[0] == 'v' else '')
        qk = qa[0] if qa[0] != 't' else 'plain'
        if qa[0] == '*' or ra[0] == '*':
            parts.append('%s=%s star changed' % (who, qk))
            continue
        Q, R = qa[1], ra[1]
        if Q == R:
            if ra[0] == 't':
                continue                     # a projection replaced by its own bound: contained
            rel = 'projection changed to %s' % ra[0]
        elif below(tb, R, Q, 'may') and not below(tb, Q, R, 'may'):
            rel = 'narrowed'
            if (var == 'out' or qa[0] == 'out') and ra[0] in ('t', 'out'):
                continue
        elif below(tb, Q, R, 'may') and not below(tb, R, Q, 'may'):
            rel = 'widened'
            if (var == 'in' or qa[0] == 'in') and ra[0] in ('t', 'in'):
                continue
        else:
            rel = 'unrelated'
        if ra[0] != qa[0] and ra[0] != 't' and Q != R:
            rel += ', projection changed to %s' % ra[0]
        parts.append('%s=%s %s' % (who, qk, rel))
    return 'argument ' + '; '.join(parts) if parts else 'no single position to blame'


def subtype_search_shape(tb, q, t=None):
    if has_dependent_param(tb, q):
        return 'query instantiates a class with a dependent parameter (T2 : T1): ' + (
            _unjustified_changes(tb, q, t) if t is not None else query_shape(tb, q))
    if _nested_generic_under_contra(tb, q):
        return 'query nests a parameterized argument in a contravariant position (declared in / in-projection)'
    return 'other query: ' + query_shape(tb, q)


def raise_shape(tb, q, exc):
    if q[0] == 'c':
        for (pn, var, b), a in zip(tb.cls[q[1]].params, q[2]):
            if a[0] == '*' and b is not None and b[0] == 'v':
                return '%s: star projection on a dependent parameter (T2 : T1)' % type(exc).__name__
        if has_dependent_param(tb, q) and any(a[0] == '*' for a in q[2]):
            return '%s: star projection in a class with a dependent parameter' % type(exc).__name__
    return '%s on %s' % (type(exc).__name__, query_shape(tb, q))


def related_shape(tb, t, q):
    direction = 'a subtype of the query' if below(tb, t, q, 'must') else 'a supertype of the query'
    same = t[0] == 'c' and q[0] == 'c' and t[1] == q[1]
    if q[0] == 'c' and not q[2]:
        qk = 'is a simple (non-generic) type'
    elif q[0] == 'v':
        qk = 'is a type variable'
    else:
        qk = 'is parameterized and ' + ('has projections' if has_projection(q) else 'has no projection')
    from mc.props.c10 import syntactic_supertypes
    nominal = False
    if t[0] == 'c' and q[0] == 'c':
        nominal = (t in syntactic_supertypes(tb, q)) or (q in syntactic_supertypes(tb, t))
    return 'result is %s (%s); %s; query %s' % (direction, 'a nominal one' if nominal else 'only through variance/projections',
                                                'same constructor' if same else 'different class', qk)


def check_table(sk, lang, tier, found, stats, cap):
    from src.ir import BUILTIN_FACTORIES, type_utils as tu
    from src import utils
    factory = BUILTIN_FACTORIES[lang]
    tb, conv = universe.realise(sk, factory)
    roles = conv.roles
    cv = rconv.TermConv(tb, {type(v): k for k, v in roles.items()})
    atoms = [universe.C('Number'), universe.C('Integer'), universe.C('String'), universe.C('P'), universe.C('Q')]
    for extra in ('D', 'D2'):
        if any(n == extra for n, _, _ in sk.classes):
            atoms.append(universe.C(extra))
    U = universe.enumerate_types(tb, sk, atoms, 1)
    if tier == 'thorough':
        U = list(dict.fromkeys(U + universe.enumerate_types(tb, sk, atoms[:2] + atoms[3:4], 2, stars=False, cap=150)))
    pool_types = [roles['Any'], roles['Number'], roles['Integer'], roles['String']] + [conv.impl[n] for n, _, _ in sk.classes]
    pool_instances = None
    for q in U:
        try:
            iq = conv(q)
        except Exception:  # noqa
            continue
        # ---- subtype search ----------------------------------------------------------------
        for include_self, concrete_only, ignore_variance in itertools.product((False, True), repeat=3):
            if ignore_variance and not concrete_only:
                continue
            stats['queries'] = stats.get('queries', 0) + 1

            def call():
                return tu.find_subtypes(iq, list(pool_types), include_self=include_self,
                                        concrete_only=concrete_only, ignore_variance=ignore_variance)
            flags = 'include_self=%s concrete_only=%s%s' % (include_self, concrete_only,
                                                             ' ignore_variance' if ignore_variance else '')
            for trace, (kind, val) in inner.explore_all(utils, call, cap, inner.LIMITED_DEFAULT):
                stats['leaves'] = stats.get('leaves', 0) + 1
                if kind == 'exc':
                    rec(found, 'search-raises', 'find_subtypes', raise_shape(tb, q, val),
                        sk, lang, q, flags, trace, str(val)[:160])
                    continue
                if kind != 'ok':
                    continue
                terms = []
                for r in val:
                    t = cv.term(r)
                    terms.append(t)
                    stats['results'] = stats.get('results', 0) + 1
                    if concrete_only and rconv.has_bare_constructor(t):
                        rec(found, 'unusable-result', 'find_subtypes', 'bare constructor for ' + query_shape(tb, q),
                            sk, lang, q, flags, trace, 'returned %s' % (t,))
                        continue
                    if rconv.has_bare_constructor(t):
                        # (only when concrete types were not requested) a bare constructor nested in an argument:
                        # the reference relation does not apply to it
                        stats['results_with_bare_constructor_unjudged'] = stats.get('results_with_bare_constructor_unjudged', 0) + 1
                        continue
                    if not below(tb, t, q, 'may'):
                        rec(found, 'result-not-a-subtype', 'find_subtypes', subtype_search_shape(tb, q, t),
                            sk, lang, q, flags, trace, 'returned %s' % (rsub.show(t) if t[0] != 'tc' else t,))
                has_self = q in terms
                if include_self and not has_self:
                    rec(found, 'self-missing', 'find_subtypes', query_shape(tb, q), sk, lang, q, flags, trace, '')
                if not include_self and has_self:
                    rec(found, 'self-included', 'find_subtypes', query_shape(tb, q), sk, lang, q, flags, trace, '')
            if inner.explore_all.capped:
                stats['capped'] = stats.get('capped', 0) + 1
        # ---- irrelevant-type search ----------------------------------------------------------
        for pool_kind in ('types', 'instances'):
            if pool_kind == 'instances':
                if pool_instances is None:
                    pool_instances = [t for t in pool_types if not t.is_type_constructor()]
                    for n, ps, _ in sk.classes:
                        if ps:
                            for t in U:
                                if t[0] == 'c' and t[1] == n and all(a[0] == 't' and not a[1][2] for a in t[2]):
                                    pool_instances.append(conv(t))
                                    break
                pool = pool_instances
            else:
                pool = pool_types
            stats['queries'] = stats.get('queries', 0) + 1

            def call2():
                return tu.find_irrelevant_type(iq, list(pool), factory)
            for trace, (kind, val) in inner.explore_all(utils, call2, cap, inner.LIMITED_DEFAULT):
                stats['leaves'] = stats.get('leaves', 0) + 1
                if kind == 'exc':
                    rec(found, 'search-raises', 'find_irrelevant_type', raise_shape(tb, q, val),
                        sk, lang, q, 'pool of ' + pool_kind, trace, str(val)[:160])
                    continue
                if kind != 'ok' or val is None:
                    continue
                t = cv.term(val)
                stats['results'] = stats.get('results', 0) + 1
                if rconv.has_bare_constructor(t):
                    rec(found, 'unusable-result', 'find_irrelevant_type', 'bare constructor for ' + query_shape(tb, q),
                        sk, lang, q, 'pool of ' + pool_kind, trace, 'returned %s' % (t,))
                    continue
                if below(tb, t, q, 'must') or below(tb, q, t, 'must'):
                    rec(found, 'result-is-related', 'find_irrelevant_type', related_shape(tb, t, q),
                        sk, lang, q, 'pool of ' + pool_kind, trace, 'returned %s' % rsub.show(t))
            if inner.explore_all.capped:
                stats['capped'] = stats.get('capped', 0) + 1
    # the top type has no irrelevant type
    for trace, (kind, val) in inner.explore_all(utils, lambda: tu.find_irrelevant_type(roles['Any'], list(pool_types), factory), cap, inner.LIMITED_DEFAULT):
        if kind == 'ok' and val is not None:
            rec(found, 'irrelevant-type-for-top', 'find_irrelevant_type', 'top type', sk, lang, universe.C('Any'), '', trace,
                'returned %s' % val)
    # type-variable queries: judged against the bound
    from src.ir import types as tp
    for bound_role in ('Number', None):
        tv = tp.TypeParameter('Z', tp.Invariant, roles[bound_role] if bound_role else None)
        for trace, (kind, val) in inner.explore_all(utils, lambda: tu.find_irrelevant_type(tv, list(pool_types), factory), cap, inner.LIMITED_DEFAULT):
            stats['leaves'] = stats.get('leaves', 0) + 1
            if kind == 'ok' and val is not None and bound_role:
                t = cv.term(val)
                b = universe.C(bound_role)
                if below(tb, t, b, 'must') or below(tb, b, t, 'must'):
                    rec(found, 'result-is-related', 'find_irrelevant_type', 'type variable with bound', sk, lang,
                        ('v', 'Z', b), '', trace, 'returned %s' % rsub.show(t))


def rec(found, rule, fn, shape, sk, lang, q, flags, trace, note):
    k = (rule, fn, shape)
    size = (len(rsub.show(q)), len(trace))
    det = {'table': sk.label, 'language': lang, 'query': rsub.show(q), 'flags': flags, 'inner_schedule': trace, 'note': note,
           'classes': [[n, [[p[0], p[1], rsub.show(p[2])] for p in ps], [rsub.show(s) for s in su]] for n, ps, su in sk.classes]}
    e = found.get(k)
    if e is None:
        found[k] = [1, size, det]
    else:
        e[0] += 1
        if size < e[1]:
            e[1], e[2] = size, det


def _work(arg):
    idxs, lang, tier, cap = arg
    common.import_repo()
    import src.ir.ast  # noqa
    sks, _ = universe.skeletons('quick')
    if tier == 'quick':
        sks = universe.quick_core(sks)
    found, stats = {}, {}
    for i in idxs:
        check_table(sks[i], lang, tier, found, stats, cap)
        stats['tables'] = stats.get('tables', 0) + 1
    return found, stats


def run(tier, seed, jobs):
    res = Result(PROP, tier, seed, level='model_checking')
    sks, rejected = universe.skeletons('quick')      # thorough: the whole quick skeleton list (59 tables)
    if tier == 'quick':
        sks = universe.quick_core(sks)     # fixed selection of the quick skeleton list
    cap = 400 if tier == 'quick' else 800
    langs = ('kotlin',)
    n = len(sks)
    step = 1
    tasks = [(list(range(i, min(n, i + step))), lang, tier, cap) for lang in langs for i in range(0, n, step)]
    tasks = common.rotate(tasks, seed)
    found, stats = {}, {}
    with mp.get_context('fork').Pool(jobs) as pool:
        for f, st in pool.imap_unordered(_work, tasks):
            for k, v in st.items():
                stats[k] = stats.get(k, 0) + v
            for k, e in f.items():
                if k not in found:
                    found[k] = e
                else:
                    found[k][0] += e[0]
                    if e[1] < found[k][1]:
                        found[k][1], found[k][2] = e[1], e[2]
    for (rule, fn, shape), (cnt, _, det) in sorted(found.items()):
        det = dict(det)
        det['instances'] = cnt
        res.add(Violation(PROP, rule, 'src/ir/type_utils.py:' + fn, shape, det))
    res.coverage = {
        'states': stats.get('results', 0), 'transitions': stats.get('leaves', 0),
        'traces_validated_against_impl': stats.get('leaves', 0),
        'queries': stats.get('queries', 0), 'tables': stats.get('tables', 0), 'queries_capped': stats.get('capped', 0),
        'leaf_cap': cap, 'exhaustive': stats.get('capped', 0) == 0,
        'samples': [{'table': sks[0].label, 'query': 'B<Number, Integer>', 'flags': 'include_self=True concrete_only=True'}],
        'explanation': 'transitions = leaves of the complete inner choice trees (one real search each); states = result '
                       'types judged',
    }
    return res


def replay(path):
    import json
    d = json.load(open(path))
    print('REPLAY: re-run ./check C09; query', d['detail']['query'], d['detail']['flags'], d['detail']['inner_schedule'])
    return 1
