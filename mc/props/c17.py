"""C17 -- generation switches are honoured.

Deciding step: CTE under ALL 16 switch vectors x 4 languages; oracle = reflective walk over
every object reachable from the generated program's Context (declared types, bounds,
supertypes, type arguments at any depth, signatures, Is operands, explicit type arguments):
no use-site projection when use-site variance is off, no `in` projection when contravariance
is off, no bounded type parameter declaration when bounds are off, no function type
parameters when parameterized functions are off; Java/Groovy classes never declare variant
type parameters; function type parameters are never variant.
"""
from mc import explore, pipeline, irwalk
from mc.common import Result, Violation
from mc.pipeline import Config

PROP = 'C17'
SPEC = 'mc.props.c17:Oracle'


def creator_hint(path):
    return irwalk.fmt_path(tuple(p for p in path if isinstance(p, str) and not p.startswith('_context')), 6)


def judge_program(P, config):
    """-> list of (rule, where, what)."""
    from src.ir import types as tp, ast
    usv, contra, bounded, pfun = config.switches
    out = []
    lang = config.lang
    stats = {'wildcards': 0, 'contra_wildcards': 0, 'bounded_params': 0, 'param_funcs': 0,
             'variant_class_params': 0, 'type_objects': 0}
    user_tparams = []   # declared type parameter objects (by declaration)
    for path, o in irwalk.walk(P.context):
        if isinstance(o, tp.Type):
            stats['type_objects'] += 1
        if isinstance(o, tp.WildCardType):
            stats['wildcards'] += 1
            if o.variance.is_contravariant():
                stats['contra_wildcards'] += 1
            if usv:
                out.append(('use-site-variance-disabled', creator_hint(path),
                            'wildcard %s created by %s' % ('*' if o.bound is None else o.variance.variance_to_str(),
                                                           getattr(o, '_vsite', '?'))))
            elif contra and o.variance.is_contravariant():
                out.append(('use-site-contravariance-disabled', creator_hint(path),
                            'wildcard in created by %s' % getattr(o, '_vsite', '?')))
        elif isinstance(o, ast.ClassDeclaration):
            for t in o.type_parameters or []:
                user_tparams.append(t)
                if t.bound is not None:
                    stats['bounded_params'] += 1
                    if bounded:
                        out.append(('bounded-type-parameters-disabled', 'class ' + 'declaration', 'class type parameter with bound'))
                if not t.variance.is_invariant():
                    stats['variant_class_params'] += 1
                    if lang in ('java', 'groovy'):
                        out.append(('no-declaration-site-variance', 'class declaration', 'variant class type parameter in %s' % lang))
        elif isinstance(o, ast.FunctionDeclaration):
            tps = o.type_parameters or []
            if tps:
                stats['param_funcs'] += 1
                if pfun:
                    out.append(('parameterized-functions-disabled', 'function declaration', 'function declares type parameters'))
            for t in tps:
                if t.bound is not None:
                    stats['bounded_params'] += 1
                    if bounded:
                        out.append(('bounded-type-parameters-disabled', 'function declaration', 'function type parameter with bound'))
                if not t.variance.is_invariant():
                    out.append(('function-type-parameter-variant', 'function declaration', 'variant function type parameter'))
    # type-parameter *uses* that carry a bound while bounds are disabled (a bound smuggled in
    # through a use rather than a declaration)
    if bounded:
        for path, o in irwalk.walk(P.context):
            if isinstance(o, tp.TypeParameter) and o.bound is not None and _is_user_param(o):
                out.append(('bounded-type-parameters-disabled', creator_hint(path), 'type variable use with bound'))
                break
    return out, stats


def _is_user_param(t):
    # builtin generic classes (Array, FunctionN) use T / A1.. / R names without bounds; any
    # bounded type variable is therefore a user one
    return True


_tagged = {}


def tag_wildcard_creators():
    """harness-only provenance: remember which /repo function created each wildcard"""
    if _tagged:
        return
    import sys
    from src.ir import types as tp
    orig = tp.WildCardType.__init__

    def init(self, bound=None, variance=tp.Invariant):
        orig(self, bound, variance)
        f = sys._getframe(1)
        name = '?'
        hops = 0
        while f is not None and hops < 12:
            fn = f.f_code.co_filename
            if '/src/' in fn and '/verif/' not in fn:
                co = f.f_code.co_name
                if co == '_get_type_substitution':
                    # a wildcard rebuilt by substitution inherits the provenance of the original
                    src = f.f_locals.get('etype')
                    inherited = getattr(src, '_vsite', None)
                    if inherited is not None:
                        name = inherited
                        break
                if co not in ('__init__', '_get_type_substitution', 'substitute_type_args', 'substitute_type',
                              'perform_type_substitution', '__deepcopy__', '<lambda>', '<listcomp>', '<genexpr>'):
                    name = co
                    break
            f = f.f_back
            hops += 1
        self._vsite = name
    tp.WildCardType.__init__ = init
    _tagged['done'] = True


class Oracle:
    def __init__(self, params):
        pipeline.setup_env()
        tag_wildcard_creators()
        self.stats = {}

    def judge(self, x):
        if x.P0 is None:
            return []
        found, st = judge_program(x.P0, x.config)
        explore._merge_stats(self.stats, st)
        vs = []
        seen = set()
        for rule, where, what in found:
            k = (rule, what)
            if k in seen:
                continue
            seen.add(k)
            vs.append({'rule': rule, 'site': 'generator', 'shape': what, 'language': x.config.lang,
                       'where': where})
        return vs


def plan(tier):
    langs = pipeline.LANGS
    sw = [(a, b, c, d) for a in (0, 1) for b in (0, 1) for c in (0, 1) for d in (0, 1)]
    if tier == 'quick':
        few = [(1, 0, 0, 0), (0, 1, 0, 0), (0, 0, 1, 0), (0, 0, 0, 1), (1, 1, 1, 1)]
        return [
            ([Config(l, s, 'S') for l in langs for s in sw], [('prng', 1)], 1, 2),
            ([Config(l, s, 'M') for l in langs for s in few], [('prng', 2)], 1, 8),
            ([Config(l, s, 'D') for l in langs for s in sw], [('prng', 1), 'first', 'alt'], 0, 1),
        ]
    from mc import plans
    return plans.thorough(langs, 'light', plans.ALL16)


RUN_KW = {'stages': ('gen',), 'keep_pickles': False}


def run(tier, seed, jobs):
    res = Result(PROP, tier, seed, level='model_checking')
    execs = trans = capped = validated = 0
    states = set()
    stats = {}
    samples = []
    plans = []
    for configs, policies, bound, nslices in plan(tier):
        tot = explore.explore(configs, policies, bound, SPEC, {}, jobs, seed, nslices, run_kw=RUN_KW)
        execs += tot.execs
        trans += tot.transitions
        states |= tot.states
        capped += tot.capped
        res.harness_errors.extend(tot.errors)
        for v in tot.violations:
            res.add(Violation(PROP, v['rule'], v['site'], v['shape'],
                              {k: v[k] for k in v if k not in ('rule', 'site', 'shape')}))
        explore._merge_stats(stats, tot.stats)
        samples.extend(tot.samples[:1])
        plans.append({'configs': len(configs), 'limits': configs[0].limits, 'policies': len(policies),
                      'deviation_bound': bound, 'executions': tot.execs})
        validated += explore.validate_fresh(tot, res, RUN_KW)
    res.coverage = {
        'states': len(states), 'transitions': trans, 'traces_validated_against_impl': validated,
        'executions': execs, 'samples': samples[:3], 'exploration_plan': plans,
        'exhaustive': capped == 0, 'caps_hit': capped, 'occurrences_seen': stats,
        'explanation': 'all 16 switch vectors x 4 languages; occurrences_seen counts the features the '
                       'switches govern over all explored programs (non-zero = the oracle is not vacuous)',
    }
    return res


def replay(path):
    import json
    d = json.load(open(path))['detail']
    x = explore.run_schedule(d['schedule'], **RUN_KW)
    vs = Oracle({}).judge(x)
    print('REPLAY', vs)
    return 1 if vs else 0
