"""C01 -- generated programs are well-typed (the pass oracle).

Deciding step: CTE (generation stage) over 4 languages x switch vectors x base schedules x
deviation bound; oracle = R-TC (mc/ref/rtc.py), an independent bidirectional checker with its own
scopes and its own subtyping (R-SUB): every initializer, call/constructor argument, function
result, conditional branch, assignment, explicit type argument bound, and the class obligations
(abstract members implemented, overrides compatible, no inheritance from final classes).
"""
from mc import explore, pipeline
from mc.common import Result, Violation
from mc.pipeline import Config
from mc.ref import rsub

PROP = 'C01'
SPEC = 'mc.props.c01:Oracle'
RUN_KW = {'stages': ('gen',), 'keep_pickles': False}

SCOPE_RULES = {'var-unresolved', 'func-unresolved', 'method-unresolved', 'field-unresolved', 'assign-final',
               'assign-final-field', 'assign-unresolved', 'new-non-regular', 'call-arity', 'new-arity',
               'call-named-unresolved', 'refcall-arity', 'refcall-unresolved', 'super-arity', 'call-typearg-arity'}


def abstract_str(s):
    """identifier-free shape of a rendered type (show() output)"""
    import re
    if s in (None, 'None'):
        return '-'
    return re.sub(r'[A-Za-z_][A-Za-z_0-9]*', lambda m: m.group(0) if m.group(0) in ('out', 'in', 'Nothing') else '.', s)


class Oracle:
    rules = None      # None = typing rules; C05 passes the scope rules

    def __init__(self, params):
        pipeline.setup_env()
        self.stats = {'positions': 0, 'skipped_unknown': 0, 'exprs': 0, 'bound_checks': 0, 'override_checks': 0,
                      'programs': 0}
        self.want = params.get('rules', 'typing')

    def judge(self, x):
        from mc.ref import rtc
        if x.P0 is None:
            return []
        ck = rtc.Checker(x.P0).run()
        self.stats['programs'] += 1
        self.stats['positions'] += ck.stats.get('positions', 0)
        self.stats['exprs'] += ck.stats.get('exprs', 0)
        self.stats['bound_checks'] += ck.stats.get('bound-checks', 0)
        self.stats['override_checks'] += ck.stats.get('override-checks', 0)
        self.stats['only_bottom_positions'] = self.stats.get('only_bottom_positions', 0) + ck.stats.get('only-bottom-positions', 0)
        self.stats['skipped_unknown'] += ck.stats.get('skipped', 0) + sum(
            v for k, v in ck.stats.items() if k.startswith('unknown'))
        vs = []
        seen = set()
        for kind, path, exp, act, extra in ck.alarms:
            is_scope = kind in SCOPE_RULES
            if (self.want == 'typing') == is_scope:
                continue
            shape = '%s: expected %s, found %s' % (kind, abstract_str(exp), abstract_str(act)) if not is_scope else kind
            if (kind, shape) in seen:
                continue
            seen.add((kind, shape))
            vs.append({'rule': kind, 'site': 'generator', 'shape': shape, 'language': x.config.lang,
                       'path': path, 'expected': exp, 'found': act, 'extra': str(extra)[:300]})
        return vs


def plan(tier):
    langs = pipeline.LANGS
    z = (0, 0, 0, 0)
    if tier == 'quick':
        sw = [z, (1, 0, 0, 0), (0, 1, 0, 0), (0, 0, 1, 0), (0, 0, 0, 1), (1, 1, 1, 1)]
        return [
            ([Config(l, s, 'S') for l in langs for s in sw], [('prng', 1), ('prng', 2)], 1, 4),
            ([Config(l, z, 'M') for l in langs], [('prng', 3)], 1, 8),
            ([Config(l, z, 'D') for l in langs], [('prng', c) for c in range(1, 7)] + ['first', 'alt'], 0, 1),
        ]
    from mc import plans
    return plans.thorough(langs, 'light', plans.VECTORS4 + [(0, 1, 0, 0), (0, 0, 0, 1)])


def run(tier, seed, jobs, prop=PROP, rules='typing'):
    res = Result(prop, tier, seed, level='model_checking')
    execs = trans = capped = validated = 0
    states = set()
    stats = {}
    samples = []
    plans = []
    for configs, policies, bound, nslices in plan(tier):
        tot = explore.explore(configs, policies, bound, SPEC, {'rules': rules}, jobs, seed, nslices, run_kw=RUN_KW)
        execs += tot.execs
        trans += tot.transitions
        states |= tot.states
        capped += tot.capped
        res.harness_errors.extend(tot.errors)
        for v in tot.violations:
            res.add(Violation(prop, v['rule'], v['site'], v['shape'],
                              {k: v[k] for k in v if k not in ('rule', 'site', 'shape')}))
        explore._merge_stats(stats, tot.stats)
        samples.extend(tot.samples[:1])
        plans.append({'configs': len(configs), 'limits': configs[0].limits, 'policies': len(policies),
                      'deviation_bound': bound, 'executions': tot.execs})
        validated += explore.validate_fresh(tot, res, RUN_KW)
    res.coverage = {
        'states': len(states), 'transitions': trans, 'traces_validated_against_impl': validated,
        'executions': execs, 'samples': samples[:2], 'exploration_plan': plans,
        'exhaustive': capped == 0, 'caps_hit': capped, 'reference_checker': stats,
        'explanation': 'states = distinct program texts; transitions = choice points answered; reference_checker counts '
                       'the typed positions judged and the positions skipped as unknown (three-valued oracle)',
    }
    return res


def replay(path):
    import json
    d = json.load(open(path))['detail']
    x = explore.run_schedule(d['schedule'], **RUN_KW)
    vs = Oracle({}).judge(x) + Oracle({'rules': 'scope'}).judge(x)
    for v in vs:
        print('REPLAY', v['rule'], v['path'], v['expected'], v['found'])
    return 1 if vs else 0
