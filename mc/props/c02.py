"""C02 -- Java translations of valid programs compile with javac.

Deciding step: CTE over the Java configurations; every distinct Java text of the generated (T0)
and of the type-erased (T1) program is compiled ALONE by the real javac 17 (compile server,
javac -nowarn); afterwards the same texts are compiled BATCHED (sizes 2, 8, 32; each text at
several positions; with passing neighbours and with failing ones = type-overwritten programs that
javac rejected alone) and every per-file verdict must equal the verdict alone.  The Java adapter
of hephaestus (C14 binding) analyses the command-line text of every failing batch and must name
exactly the files the structured diagnostics blame.
"""
import hashlib

from mc import common, explore, pipeline, javac
from mc.common import Result, Violation
from mc.pipeline import Config

PROP = 'C02'
SPEC = 'mc.props.c02:Oracle'


class Oracle:
    def __init__(self, params):
        pipeline.setup_env()
        self.srv = javac.JavacServer()
        self.stats = {'compiled_alone': 0, 'distinct_texts': 0, 'batches': 0, 'batched_verdicts': 0,
                      'rejected_ill_typed': 0, 'accepted_ill_typed': 0, 'adapter_checks': 0}
        self.seen = {}          # text hash -> verdict alone (True = no error)
        self.good = []          # (hash, text)
        self.bad = []           # rejected T2 texts
        self.pending = []
        self.cast = params.get('cast_numbers', False)

    def _alone(self, text, label):
        h = hashlib.md5(text.encode()).hexdigest()
        if h in self.seen:
            return self.seen[h], None, h
        path = self.srv.write_program(text, 'a')
        ok, diags, _ = self.srv.compile([path])
        self.srv.remove(path)
        errs = [d for d in diags if d.kind in ('ERROR', 'CRASH')]
        verdict = ok and not errs
        self.seen[h] = verdict
        self.stats['compiled_alone'] += 1
        self.stats['distinct_texts'] += 1
        return verdict, errs, h

    def judge(self, x):
        vs = []
        if x.config.lang != 'java' or x.error is not None:
            return vs
        fam = x.config.family_index() is not None
        for label, text in (('generated', x.T0), ('erased', x.T1)):
            if text is None:
                continue
            if not text.startswith('package src.a;\n'):
                vs.append({'rule': 'package-line', 'site': 'src/translators/java.py:visit_program',
                           'shape': 'first line is not the requested package', 'head': text[:60]})
                continue
            verdict, errs, h = self._alone(text, label)
            if errs is None:
                if fam and label == 'generated' and not verdict:
                    break
                continue
            if verdict:
                self.good.append((h, text))
            elif fam and label == 'generated':
                # a hand-built family program outside what the Java translator's type hints cover (C02 is about
                # generated programs): its erased form is not judged either
                self.stats['family_baseline_rejected'] = self.stats.get('family_baseline_rejected', 0) + 1
                break
            else:
                d = errs[0]
                vs.append({'rule': 'javac-rejects-%s-program' % label, 'site': 'javac',
                           'shape': '%s' % d.code, 'message': d.msg, 'line': d.line,
                           'source_line': _line(text, d.line), 'all_errors': [e.code for e in errs][:6]})
        if x.T2 is not None and x.ow_flag:
            t2 = x.T2.replace('package src.b;', 'package src.a;', 1)
            verdict, errs, h = self._alone(t2, 'overwritten')
            if errs is not None:
                if verdict:
                    self.stats['accepted_ill_typed'] += 1
                else:
                    self.stats['rejected_ill_typed'] += 1
                    if len(self.bad) < 64:
                        self.bad.append((h, t2))
        return vs

    def finish_unit(self):
        """batched compilation of everything this unit saw"""
        try:
            self.batch_vs = self._batches()
        finally:
            self.srv.close()

    def _batches(self):
        from src.compilers.java import JavaCompiler
        out = []
        good = list(dict(self.good).items())
        bad = list(dict(self.bad).items())
        if not good:
            return out
        for B in (2, 8, 32):
            for offset in (0, 1):
                items = good[offset:] + good[:offset]
                for i in range(0, len(items), B):
                    chunk = [(h, t, True) for h, t in items[i:i + B]]
                    if offset == 1 and bad:
                        # failing neighbours: first, middle and last position
                        k = (i // B) % len(bad)
                        b = bad[k]
                        pos = [0, len(chunk) // 2, len(chunk)][(i // B) % 3]
                        chunk.insert(pos, (b[0], b[1], False))
                    if len(chunk) < 2:
                        continue
                    bd = self.srv.new_batch_dir()
                    paths = []
                    for j, (h, t, exp) in enumerate(chunk):
                        paths.append(self.srv.write_into(bd, javac.set_package(t, 'src.p%d' % j), 'p%d' % j))
                    has_bad = any(not e for _, _, e in chunk)
                    ok, diags, cli = self.srv.compile(paths, text=has_bad)
                    self.stats['batches'] += 1
                    blamed = {d.file for d in diags if d.kind in ('ERROR', 'CRASH')}
                    for p, (h, t, exp) in zip(paths, chunk):
                        self.stats['batched_verdicts'] += 1
                        got = p not in blamed
                        if got != exp:
                            out.append({'rule': 'batching-changes-verdict', 'site': 'javac',
                                        'shape': 'alone %s, in a batch of %d %s' % (
                                            'accepted' if exp else 'rejected', len(chunk), 'accepted' if got else 'rejected'),
                                        'errors': [repr(d) for d in diags if d.file == p][:3], 'text': t[:3000],
                                        'schedule': None, 'digest': None})
                    if has_bad and cli is not None:
                        # C14 binding: the real adapter on the real command-line text
                        comp = JavaCompiler(bd + '/src')
                        failed, _ = comp.analyze_compiler_output(cli)
                        self.stats['adapter_checks'] += 1
                        if comp.crash_msg:
                            out.append({'rule': 'adapter-classifies-diagnostics-as-crash', 'site': 'src/compilers/java.py',
                                        'shape': 'real javac output', 'output': cli[:2000], 'schedule': None, 'digest': None})
                        elif set(failed or {}) != blamed:
                            out.append({'rule': 'adapter-disagrees-with-structured-diagnostics',
                                        'site': 'src/compilers/java.py', 'shape': 'real javac output',
                                        'adapter': sorted(failed or {}), 'structured': sorted(blamed), 'output': cli[:2000],
                                        'schedule': None, 'digest': None})
                    self.srv.remove(bd)
        return out


def _line(text, n):
    rows = text.split('\n')
    return rows[n - 1].strip()[:160] if 0 < n <= len(rows) else ''


def plan(tier):
    z = (0, 0, 0, 0)
    if tier == 'quick':
        sw = [z, (1, 0, 0, 0), (0, 0, 1, 0), (0, 0, 0, 1), (1, 1, 1, 1)]
        return [
            ([Config('java', s, 'S') for s in sw], [('prng', 1), ('prng', 2)], 1, 8, False),
            ([Config('java', z, 'M'), Config('java', z, 'D')], [('prng', c) for c in range(1, 41)] + ['first', 'alt'], 0, 1, False),
        ]
    from mc import plans
    out = [(c, p, b, n, False) for c, p, b, n in plans.thorough(['java'], 'medium')]
    out.append(([Config('java', z, 'S', 'asc', True)], [('prng', 1), ('prng', 2)], 1, 8, True))
    return out


def run(tier, seed, jobs):
    res = Result(PROP, tier, seed, level='model_checking')
    execs = trans = capped = validated = 0
    states = set()
    stats = {}
    samples = []
    plans = []
    from mc import progfam
    # hand-built family (mc/progfam.py): generated and erased form of every program (quick: the core subset)
    fam = [(progfam.family_configs(('java',), 'all' if tier == 'thorough' else 'core'), ['first'], 0, 1, False, 10 if tier == 'quick' else 40)]
    for part in fam + plan(tier):
        configs, policies, bound, nslices, cast = part[:5]
        chunk = part[5] if len(part) > 5 else None
        tot = explore.explore(configs, policies, bound, SPEC, {'cast_numbers': cast}, jobs, seed, nslices, chunk=chunk)
        execs += tot.execs
        trans += tot.transitions
        states |= tot.states
        capped += tot.capped
        res.harness_errors.extend(tot.errors)
        for v in tot.violations:
            res.add(Violation(PROP, v['rule'], v['site'], v['shape'],
                              {k: v[k] for k in v if k not in ('rule', 'site', 'shape')}))
        explore._merge_stats(stats, tot.stats)
        samples.extend(tot.samples[:1])
        plans.append({'configs': len(configs), 'limits': configs[0].limits, 'policies': len(policies),
                      'deviation_bound': bound, 'executions': tot.execs})
        validated += explore.validate_fresh(tot, res)
    res.coverage = {
        'states': len(states), 'transitions': trans, 'traces_validated_against_impl': validated,
        'executions': execs, 'samples': samples[:2], 'exploration_plan': plans,
        'exhaustive': capped == 0, 'caps_hit': capped, 'javac': stats,
        'explanation': 'states = distinct program texts; transitions = choice points answered; javac.* counts the real '
                       'compilations (alone, batched) and adapter-vs-structured comparisons',
    }
    res.assumptions = ['OpenJDK 17 javac is the judge', 'batch neighbours come from the same exploration unit']
    return res


def replay(path):
    import json
    d = json.load(open(path))['detail']
    if not d.get('schedule'):
        print('REPLAY: batch-level finding, re-run ./check C02')
        return 1
    o = Oracle({})
    x = explore.run_schedule(d['schedule'])
    vs = o.judge(x)
    o.srv.close()
    print('REPLAY', vs)
    return 1 if vs else 0
