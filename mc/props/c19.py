"""C19 -- graph queries agree with their textbook definitions.

Deciding step: exhaustive enumeration of ALL directed graphs (self loops included) on
n <= 4 vertices as closed adjacency maps (66 066 graphs), every vertex / ordered pair of
each; thorough adds all 2^20 five-vertex graphs without self loops.  dfs is driven with the
Edge-list form is_combination_feasible passes, additionally on *open* graphs (targets that
are not keys).  Reference: Floyd-Warshall closure + brute-force simple path enumeration,
written from the definitions, never calling graph_utils.
"""
import json
import multiprocessing as mp

from mc import common
from mc.common import Result, Violation

PROP = 'C19'


def closure(n, adj):
    r = [[i == j or j in adj[i] for j in range(n)] for i in range(n)]
    for k in range(n):
        for i in range(n):
            for j in range(n):
                if r[i][k] and r[k][j]:
                    r[i][j] = True
    return r


def simple_paths(adj, s):
    out = []

    def go(p):
        out.append(list(p))
        for j in adj[p[-1]]:
            if j not in p:
                go(p + [j])
    go([s])
    return out


def graph_from_mask(n, pairs, mask):
    adj = {i: [] for i in range(n)}
    for b, (i, j) in enumerate(pairs):
        if mask >> b & 1:
            adj[i].append(j)
    return adj


def check_graph(gu, Edge, n, adj, bad, counts, none_role=True):
    """Compare every query on one graph. `bad` maps query -> first counterexample."""
    def rec(k, info):
        counts[k] = counts.get(k, 0) + 1
        if k not in bad:
            bad[k] = info
    sadj = {i: set(v) for i, v in adj.items()}
    R = closure(n, sadj)
    und = {i: set() for i in range(n)}
    for i in sadj:
        for j in sadj[i]:
            und[i].add(j)
            und[j].add(i)
    W = closure(n, und)
    indeg0 = [j for j in range(n) if not any(j in sadj[k] for k in range(n))]
    eg = {i: [Edge(j, 0) for j in adj[i]] for i in adj}
    nq = 0
    for s in range(n):
        reach_s = {j for j in range(n) if R[s][j]}
        try:
            got = gu.find_all_reachable(adj, s)
            if got != reach_s:
                rec('find_all_reachable', (adj, s, sorted(got), sorted(reach_s)))
        except Exception as e:  # noqa
            rec('find_all_reachable', (adj, s, 'EXC ' + type(e).__name__, sorted(reach_s)))
        got = gu.find_all_bi_reachable(adj, s)
        exp = {j for j in range(n) if R[s][j] or R[j][s]}
        if got != exp:
            rec('find_all_bi_reachable', (adj, s, sorted(got), sorted(exp)))
        got = gu.find_all_connected(adj, s)
        exp = {j for j in range(n) if W[s][j]}
        if got != exp:
            rec('find_all_connected', (adj, s, sorted(got), sorted(exp)))
        got = gu.dfs(eg, s)
        exp = reach_s - {s}
        if got != exp:
            rec('dfs', (adj, s, sorted(got), sorted(exp)))
        try:
            got = gu.find_sources(adj, s)
            exp = {j for j in indeg0 if R[j][s]}
            if set(got) != exp or len(got) != len(set(got)):
                rec('find_sources', (adj, s, list(got), sorted(exp)))
        except Exception as e:  # noqa
            rec('find_sources', (adj, s, 'EXC ' + type(e).__name__, None))
        sp = simple_paths(adj, s)
        got = gu.find_all_paths(adj, s)
        if sorted(got) != sorted(sp):
            rec('find_all_paths', (adj, s, sorted(got), sorted(sp)))
        spt = {tuple(p) for p in sp}
        mp_ = sorted(p for p in sp
                     if not any(len(q) > len(p) and q[:len(p)] == tuple(p) for q in spt))
        try:
            got = gu.find_longest_paths(adj, s)
            if sorted(got) != mp_:
                rec('find_longest_paths', (adj, s, sorted(got), mp_))
        except Exception as e:  # noqa
            rec('find_longest_paths', (adj, s, 'EXC ' + type(e).__name__, mp_))
        nq += 7
        for t in range(n):
            if gu.reachable(adj, s, t) != R[s][t]:
                rec('reachable', (adj, s, t, not R[s][t], R[s][t]))
            if gu.bi_reachable(adj, s, t) != (R[s][t] or R[t][s]):
                rec('bi_reachable', (adj, s, t, None, R[s][t] or R[t][s]))
            if gu.connected(adj, s, t) != W[s][t]:
                rec('connected', (adj, s, t, not W[s][t], W[s][t]))
            nq += 3
            if none_role:
                # vertex t plays the role of the NONE node
                exp = any((R[v][t] or R[t][v]) for v in range(n) if R[s][v] or R[v][s])
                if bool(gu.none_reachable(adj, s, none_node=t)) != exp:
                    rec('none_reachable', (adj, s, t, not exp, exp))
                exp = W[s][t]
                if bool(gu.none_connected(adj, s, none_node=t)) != exp:
                    rec('none_connected', (adj, s, t, not exp, exp))
                nq += 2
    return nq


def check_open_dfs(gu, Edge, n, adj, bad, counts):
    """dfs on open graphs: drop the keys of sink vertices (targets that are no keys)."""
    sinks = [i for i in range(n) if not adj[i]]
    if not sinks:
        return 0
    sadj = {i: set(v) for i, v in adj.items()}
    R = closure(n, sadj)
    eg = {i: [Edge(j, 0) for j in adj[i]] for i in adj if adj[i]}
    nq = 0
    for s in eg:
        got = gu.dfs(eg, s)
        exp = {j for j in range(n) if R[s][j]} - {s}
        nq += 1
        if got != exp:
            counts['dfs(open)'] = counts.get('dfs(open)', 0) + 1
            bad.setdefault('dfs(open)', (adj, s, sorted(got), sorted(exp)))
    return nq


def _work(arg):
    n, selfloops, lo, hi, none_role = arg
    common.import_repo()
    from src import graph_utils as gu
    from src.analysis.type_dependency_analysis import Edge
    pairs = [(i, j) for i in range(n) for j in range(n) if selfloops or i != j]
    bad, counts = {}, {}
    nq = 0
    graphs = 0
    cyclic = 0
    for mask in range(lo, hi):
        adj = graph_from_mask(n, pairs, mask)
        graphs += 1
        nq += check_graph(gu, Edge, n, adj, bad, counts, none_role)
        nq += check_open_dfs(gu, Edge, n, adj, bad, counts)
        if any(len(v) for v in adj.values()):
            cyclic += 1
    return (n, lo, bad, counts, nq, graphs, cyclic)


def units(tier):
    us = []
    for n in range(1, 5):
        total = 1 << (n * n)
        step = max(1, total // 64)
        for lo in range(0, total, step):
            us.append((n, True, lo, min(total, lo + step), True))
    if tier == 'thorough':
        total = 1 << 20
        step = total // 512
        for lo in range(0, total, step):
            us.append((5, False, lo, lo + step, False))
    return us


def run(tier, seed, jobs):
    res = Result(PROP, tier, seed, level='exploration')
    us = common.rotate(units(tier), seed)
    with mp.Pool(jobs) as pool:
        outs = pool.map(_work, us, chunksize=1)
    outs.sort(key=lambda o: (o[0], o[1]))
    bad, counts = {}, {}
    nq = graphs = nontrivial = 0
    for n, lo, b, c, q, g, cy in outs:
        for k, v in b.items():
            bad.setdefault(k, v)   # first in enumeration order = smallest
        for k, v in c.items():
            counts[k] = counts.get(k, 0) + v
        nq += q
        graphs += g
        nontrivial += cy
    for k, info in sorted(bad.items()):
        adj = info[0]
        shape = 'graph=%s args=%s' % (json.dumps({str(a): b for a, b in adj.items()},
                                                 sort_keys=True), list(info[1:-2]))
        res.add(Violation(PROP, 'differs-from-definition', 'src/graph_utils.py:' + k, shape,
                          {'query': k, 'graph': adj, 'args': list(info[1:-2]),
                           'got': info[-2], 'expected': info[-1],
                           'failing_cases_in_run': counts[k]}))
    res.coverage = {
        'evaluations': nq,
        'distinct_nontrivial': nontrivial,
        'rule': 'all digraphs with self loops on 1..4 vertices as closed adjacency maps'
                + (' + all 2^20 loop-free digraphs on 5 vertices' if tier == 'thorough' else '')
                + '; evaluations = (query, graph, vertex/pair) comparisons; non-trivial = graphs '
                  'with at least one edge (each graph is distinct by construction)',
        'graphs': graphs,
        'exhaustive': True,
        'failing_cases': counts,
        'samples': [
            {'graph': {'0': [1], '1': [2], '2': [0, 3], '3': []}, 'query': 'find_longest_paths', 'vertex': 1},
            {'graph': {'0': [0, 1], '1': []}, 'query': 'find_sources', 'vertex': 1},
        ],
    }
    res.assumptions = ['graphs are closed adjacency maps (every vertex a key), the form every caller '
                       'and test uses; dfs additionally on open Edge-list graphs',
                       'reference: Floyd-Warshall closure and brute-force path enumeration']
    return res


def replay(path):
    common.import_repo()
    from src import graph_utils as gu
    from src.analysis.type_dependency_analysis import Edge
    d = json.load(open(path))['detail']
    adj = {int(k): v for k, v in d['graph'].items()}
    bad, counts = {}, {}
    check_graph(gu, Edge, len(adj), adj, bad, counts)
    check_open_dfs(gu, Edge, len(adj), adj, bad, counts)
    for k, v in bad.items():
        print('REPLAY', k, v)
    return 1 if bad else 0
