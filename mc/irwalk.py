"""Reflective walker over IR object graphs (independent of Node.children())."""
import sys

_ATOMS = (str, int, float, bool, type(None), bytes)


def walk(root, skip_attrs=('_vh', 'bt_factory')):
    """Yield (path, obj) for every non-atomic object reachable from root, each object once
    (first path wins).  Paths are tuples of attribute names / indexes / dict keys."""
    seen = set()
    stack = [((), root)]
    while stack:
        path, o = stack.pop()
        if isinstance(o, _ATOMS) or isinstance(o, type) or o is None:
            continue
        oid = id(o)
        if oid in seen:
            continue
        seen.add(oid)
        if isinstance(o, (list, tuple, set, frozenset)):
            items = list(o)
            for i in range(len(items) - 1, -1, -1):
                stack.append((path + (i,), items[i]))
            continue
        if isinstance(o, dict):
            items = list(o.items())
            for i in range(len(items) - 1, -1, -1):
                k, v = items[i]
                if not isinstance(k, _ATOMS) and not isinstance(k, tuple):
                    stack.append((path + (('key', i),), k))
                stack.append((path + (k if isinstance(k, _ATOMS + (tuple,)) else ('val', i),), v))
            continue
        yield path, o
        d = getattr(o, '__dict__', None)
        if d is None:
            if hasattr(o, '_fields'):
                for k in reversed(o._fields):
                    stack.append((path + (k,), getattr(o, k)))
            continue
        for k in sorted(d, reverse=True):
            if k in skip_attrs:
                continue
            stack.append((path + (k,), d[k]))


def fmt_path(path, limit=12):
    out = []
    for p in path[:limit]:
        out.append(str(p))
    s = '/'.join(out)
    if len(path) > limit:
        s += '/...'
    return s
