"""CTE -- deviation-bounded stateless exploration of the pipeline's choice tree.

Work unit = (configuration, base policy, slice of first-deviation positions).  Each unit re-runs
its base execution (cheap), explores every alternative at every position of its slice (bound 1)
and, for bound 2, every alternative at every later position of each 1-deviation execution.
Executions always run to completion; the bound is on deviations, not depth.
"""
import hashlib
import importlib
import json
import multiprocessing as mp
import os
import subprocess
import sys
import time

from mc import common, pipeline
from mc.choice import policy_name, policy_from_name
from mc.pipeline import Config


def exec_digest(x):
    h = hashlib.md5()
    for part in (x.T0, x.T1, x.T2, x.error, x.ow_flag, x.ow_msg, x.erasure_flags,
                 tuple(x.cs.ns), tuple(x.cs.ans)):
        h.update(repr(part).encode())
        h.update(b'\0')
    return h.hexdigest()


def schedule_json(x):
    return {'config': x.config.to_json(), 'policy': policy_name(x.policy),
            'dev': sorted([list(kv) for kv in x.dev.items()])}


def run_schedule(sched, **kw):
    cfgd = Config.from_json(sched['config'])
    dev = {int(p): int(a) for p, a in sched.get('dev', [])}
    return pipeline.run_execution(cfgd, policy_from_name(sched['policy']), dev, **kw)


def load_oracle(spec, params):
    modname, clsname = spec.split(':')
    mod = importlib.import_module(modname)
    return getattr(mod, clsname)(params)


class UnitResult:
    def __init__(self):
        self.execs = 0
        self.transitions = 0
        self.states = set()
        self.violations = []     # dicts
        self.stats = {}
        self.errors = []         # harness errors
        self.samples = []
        self.max_points = 0
        self.stage_points = {}
        self.capped = 0
        self.bound_done = 0
        self.bases = []          # (schedule, digest) of base executions, for fresh-process validation


def _merge_stats(dst, src):
    for k, v in src.items():
        if isinstance(v, (int, float)):
            if str(k).startswith('max'):
                dst[k] = max(dst.get(k, 0), v)
            else:
                dst[k] = dst.get(k, 0) + v
        elif isinstance(v, dict):
            if str(k).startswith('max'):
                d = dst.setdefault(k, {})
                for kk, vv in v.items():
                    d[kk] = max(d.get(kk, 0), vv)
            else:
                _merge_stats(dst.setdefault(k, {}), v)
        elif isinstance(v, set):
            dst.setdefault(k, set()).update(v)
        elif isinstance(v, list):
            d = dst.setdefault(k, [])
            if len(d) < 20:
                d.extend(v[:20 - len(d)])
        else:
            dst.setdefault(k, v)


def _stage_hist(x, hist):
    marks = x.cs.stage_marks
    for i, (name, start) in enumerate(marks):
        end = marks[i + 1][1] if i + 1 < len(marks) else len(x.cs.ns)
        hist[name] = hist.get(name, 0) + (end - start)


def _unit(arg):
    (config_json, pol_name, slice_idx, nslices, bound, oracle_spec, params, run_kw, budget_s) = arg
    t0 = time.time()
    ur = UnitResult()
    try:
        oracle = load_oracle(oracle_spec, params)
        # a family unit carries a list of configurations (one per hand-built program) that share one oracle
        # object (and, for Java, one compile server); an ordinary unit carries one configuration
        cfgs = config_json if isinstance(config_json, list) else [config_json]
        for cj in cfgs:
            _explore_config(cj, pol_name, slice_idx, nslices, bound, oracle, run_kw, budget_s, ur, t0)
        if hasattr(oracle, 'finish_unit'):
            oracle.finish_unit()
            for v in getattr(oracle, 'batch_vs', None) or []:
                v = dict(v)
                v.setdefault('schedule', None)
                v.setdefault('digest', None)
                v['unit'] = {'config': cfgs[0], 'policy': pol_name, 'slice': slice_idx}
                ur.violations.append(v)
        ur.stats = oracle.stats
    except BaseException as e:  # noqa
        import traceback
        ur.errors.append('unit %r crashed: %s' % (arg[:4], traceback.format_exc()[-1500:]))
    return ur


def _explore_config(config_json, pol_name, slice_idx, nslices, bound, oracle, run_kw, budget_s, ur, t0):
    config = Config.from_json(config_json)
    policy = policy_from_name(pol_name)
    hooks = getattr(oracle, 'hooks', None)
    kw = dict(run_kw)
    stage_filter = kw.pop('deviate_stages', None)      # only deviate at points of these stages
    full_sites = kw.pop('full_expand_sites', None)      # (unused here; see c04)

    def judge(x):
        x.frozen_ns = list(x.cs.ns)   # the oracle may draw further choices; they are not explored
        digest = exec_digest(x)       # taken BEFORE the oracle runs (it may draw from the same source)
        ur.execs += 1
        ur.transitions += len(x.cs.ns)
        ur.max_points = max(ur.max_points, len(x.cs.ns))
        if x.cs.unused_deviations():
            ur.errors.append('deviation not consumed: %r' % (schedule_json(x),))
        vs = oracle.judge(x)
        for v in vs:
            v = dict(v)
            v.setdefault('schedule', schedule_json(x))
            v.setdefault('digest', digest)
            ur.violations.append(v)
        for t in (x.T0, x.T1, x.T2):
            if t is not None:
                ur.states.add(hashlib.md5(t.encode()).digest()[:8])

    base = pipeline.run_execution(config, policy, None, hooks=hooks, **kw)
    base_digest = exec_digest(base)
    ns = list(base.cs.ns)
    if slice_idx == 0:
        ur.bases.append((schedule_json(base), base_digest))
        judge(base)
        _stage_hist(base, ur.stage_points)
        if len(ur.samples) < 1:
            ur.samples.append({'schedule': schedule_json(base), 'choice_points': len(base.cs.ns),
                               'T0_head': (base.T0 or '')[:300], 'error': base.error})

    def allowed(x, pos):
        if stage_filter is None:
            return True
        return x.cs.stage_of(pos) in stage_filter

    def expand(x, start, depth):
        """all single deviations of x at positions >= start; recurse to `bound`."""
        xns = x.frozen_ns
        for pos in range(start, len(xns)):
            if depth == 1 and pos % nslices != slice_idx:
                continue
            if not allowed(x, pos):
                continue
            for alt in range(xns[pos] - 1):
                if budget_s and time.time() - t0 > budget_s:
                    ur.capped += 1
                    return False
                dev = dict(x.dev)
                dev[pos] = alt
                y = pipeline.run_execution(config, policy, dev, hooks=hooks, **kw)
                judge(y)
                if depth < bound:
                    if not expand(y, pos + 1, depth + 1):
                        return False
        return True

    if bound >= 1:
        base.frozen_ns = ns
        done = expand(base, 0, 1)
        ur.bound_done = bound if done else 0
    # end-of-life replay of the base schedule: state leaking between executions?
    again = pipeline.run_execution(config, policy, None, hooks=hooks, **kw)
    if exec_digest(again) != base_digest:
        ur.errors.append('base schedule not reproducible inside worker: %s %s' % (config, pol_name))


def explore(configs, policies, bound, oracle_spec, params=None, jobs=16, seed=0, nslices=8,
            run_kw=None, budget_s=None, chunk=None):
    """-> merged UnitResult + list of unit descriptors.  chunk=N: N configurations per unit (family
    programs: many tiny configurations share one oracle object)."""
    units = []
    if chunk:
        nslices = 1
        for p in policies:
            for i in range(0, len(configs), chunk):
                units.append(([c.to_json() for c in configs[i:i + chunk]], policy_name(p), 0, 1, bound,
                              oracle_spec, params or {}, run_kw or {}, budget_s))
        configs = []
    for c in configs:
        for p in policies:
            for s in range(nslices if bound >= 1 else 1):
                units.append((c.to_json(), policy_name(p), s, nslices, bound, oracle_spec,
                              params or {}, run_kw or {}, budget_s))
    units = common.rotate(units, seed)
    total = UnitResult()
    total.bound_done = bound
    ctx = mp.get_context('fork')
    with ctx.Pool(jobs) as pool:
        for ur in pool.imap_unordered(_unit, units, chunksize=1):
            total.execs += ur.execs
            total.transitions += ur.transitions
            total.states |= ur.states
            total.violations.extend(ur.violations)
            total.errors.extend(ur.errors)
            total.max_points = max(total.max_points, ur.max_points)
            total.capped += ur.capped
            total.bases.extend(ur.bases)
            _merge_stats(total.stats, ur.stats)
            _merge_stats(total.stage_points, ur.stage_points)
            if len(total.samples) < 4:
                total.samples.extend(ur.samples)
    if total.capped:
        total.bound_done = 0
    # deterministic order regardless of scheduling
    total.violations.sort(key=lambda v: (len(v['schedule']['dev']) if v.get('schedule') else 99,
                                         json.dumps(v.get('schedule'), sort_keys=True), v.get('rule', '')))
    return total


# ---- fresh-process validation ----------------------------------------------------------------

def fresh_digests(schedules, run_kw=None, hooks_spec=None, params=None):
    """Replay schedules in a brand-new interpreter, twice; -> list of (digest1, digest2)."""
    if not schedules:
        return []
    payload = json.dumps({'schedules': schedules, 'run_kw': run_kw or {}, 'oracle': hooks_spec,
                          'params': params or {}})
    env = dict(os.environ)
    env['PYTHONHASHSEED'] = '0'
    env['PYTHONDONTWRITEBYTECODE'] = '1'
    out = subprocess.run([sys.executable, '-m', 'mc.explore'], input=payload.encode(), env=env,
                         cwd=common.VERIF, stdout=subprocess.PIPE, stderr=subprocess.PIPE, timeout=3600)
    if out.returncode != 0:
        raise RuntimeError('fresh replay failed: %s' % out.stderr.decode()[-2000:])
    return json.loads(out.stdout.decode().strip().splitlines()[-1])


def validate_fresh(total, res, run_kw=None, oracle_spec=None, params=None, extra=()):
    """Replay in a fresh process (twice) the schedule of the first violation of every group and
    every `extra` schedule; any digest mismatch is a harness error.  Returns #validated."""
    todo = []
    seen = set()
    for v in total.violations:
        k = (v.get('rule'), v.get('site'), v.get('shape'))
        if k in seen or not v.get('schedule'):
            continue
        seen.add(k)
        todo.append((v['schedule'], v['digest']))
    todo = todo[:200]
    for s, d in extra:
        todo.append((s, d))
    # base schedules are always validated (a fixed, order-independent selection), so that the replay
    # machinery is exercised on every run, not only when something fails
    for s, d in sorted(total.bases, key=lambda b: json.dumps(b[0], sort_keys=True))[:12]:
        todo.append((s, d))
    if not todo:
        return 0
    kw = dict(run_kw or {})
    kw.pop('deviate_stages', None)
    kw.pop('full_expand_sites', None)
    got = fresh_digests([s for s, _ in todo], kw, oracle_spec, params)
    n = 0
    for (s, d), (d1, d2) in zip(todo, got):
        if d1 != d2 or (d is not None and d1 != d):
            res.harness_errors.append('schedule not reproducible in fresh process: %s' % json.dumps(s))
        else:
            n += 1
    return n


def _main():
    common.install_arena_cache()
    payload = json.loads(sys.stdin.read())
    sys.argv = [sys.argv[0]]
    hooks = None
    oracle = None
    if payload.get('oracle'):
        oracle = load_oracle(payload['oracle'], payload.get('params') or {})
        hooks = getattr(oracle, 'hooks', None)
    out = []
    try:
        for s in payload['schedules']:
            d1 = exec_digest(run_schedule(s, hooks=hooks, **payload['run_kw']))
            d2 = exec_digest(run_schedule(s, hooks=hooks, **payload['run_kw']))
            out.append((d1, d2))
    finally:
        if oracle is not None and hasattr(oracle, 'finish_unit'):
            oracle.finish_unit()
    print(json.dumps(out))


if __name__ == '__main__':
    _main()
