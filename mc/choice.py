"""ChoiceSource: the single seam through which every random decision of hephaestus flows.

It replaces the `random.Random` object `src.utils.random.r`.  All `RandomUtils` methods stay real
code (`bool`, `integer`, `choice`, `sample`, `caps`, `range`, `char`); only `word()` is
overridden (data choice, see install()).

A *schedule* is (base policy, {position: alternative index}).  Positions not mentioned are
answered by the base policy, which is a pure function of (policy, position, menu) -- NOT of
VERIF_SEED.  A *deviation* is a position answered differently from the base policy.
"""
import random as _pyrandom
import sys

REP_INT_LIMIT = 8       # randint ranges up to this size are menus of all values
CHAR_REPS = 'aZ0'       # char() is data: representatives only


class Horizon(BaseException):
    """Execution asked for more choice points than the horizon allows."""


class ScheduleError(BaseException):
    """A replayed deviation does not fit the menu (harness error, never a verdict)."""


_STREAMS = {}


def _stream(c):
    s = _STREAMS.get(c)
    if s is None:
        s = _STREAMS[c] = ([], _pyrandom.Random(1000003 * (c + 1)))
    return s


def _u(c, pos):
    vals, rnd = _stream(c)
    while len(vals) <= pos:
        vals.append(rnd.random())
    return vals[pos]


_UTILS_SUFFIX = 'src/utils.py'
_OFFSETS = {}


def _site_offset(site):
    o = _OFFSETS.get(site)
    if o is None:
        o = _OFFSETS[site] = sum(site.encode()) % 9973
    return o


class ChoiceSource:
    """Drop-in for random.Random used by RandomUtils."""

    def __init__(self, policy, deviations=None, horizon=20000, record_sites=True):
        self.policy = policy              # 'first' | 'last' | 'alt' | ('prng', c)
        self.dev = dict(deviations or {})  # pos -> index into alternatives (menu minus base)
        self.horizon = horizon
        self.ns = []        # menu size per point
        self.base = []      # base index per point
        self.ans = []       # chosen index per point
        self.sites = []     # call-site id per point
        self.stage_marks = []  # (stage name, first position)
        self.record_sites = record_sites
        self._visits = {}   # site -> number of earlier visits (fair round-robin base policies)
        self.used_dev = set()

    # ---- bookkeeping -------------------------------------------------------------------
    def mark(self, stage):
        self.stage_marks.append((stage, len(self.ns)))

    def stage_of(self, pos):
        name = None
        for s, p in self.stage_marks:
            if p <= pos:
                name = s
            else:
                break
        return name

    def _site(self):
        f = sys._getframe(2)
        while f is not None and f.f_code.co_filename.endswith(_UTILS_SUFFIX):
            f = f.f_back
        if f is None:
            return '?'
        fn = f.f_code.co_filename
        i = fn.rfind('/src/')
        if i >= 0:
            fn = fn[i + 1:]
        return '%s:%s:%d' % (fn, f.f_code.co_name, f.f_lineno)

    def _pick(self, n, base_idx=None, u=None):
        """Answer one choice point with a menu of n answers; returns chosen index."""
        pos = len(self.ns)
        if pos >= self.horizon:
            raise Horizon(pos)
        site = self._site()
        if base_idx is None:
            pol = self.policy
            if isinstance(pol, str):
                # fair round-robin per call site: a retry loop (caps(), the
                # generate_expr <-> gen_variable recursion) meets every answer in turn, so
                # every base execution terminates; the wait stays visible as choice points.
                k = self._visits.get(site, 0)
                self._visits[site] = k + 1
                if pol == 'first':
                    b = k % n
                elif pol == 'last':
                    b = (n - 1 - k) % n
                else:  # 'alt': round-robin started at a site-dependent offset
                    b = (k + _site_offset(site)) % n
            else:
                uu = _u(pol[1], pos) if u is None else u
                b = min(n - 1, int(uu * n))
        else:
            b = base_idx
        c = b
        if pos in self.dev:
            alt = self.dev[pos]
            if not 0 <= alt < n - 1:
                raise ScheduleError('deviation %r at %d does not fit menu of %d' % (alt, pos, n))
            c = alt if alt < b else alt + 1   # alternatives = menu minus base, in menu order
            self.used_dev.add(pos)
        self.ns.append(n)
        self.base.append(b)
        self.ans.append(c)
        self.sites.append(site)
        return c

    # ---- random.Random interface used by RandomUtils -------------------------------------
    def seed(self, *a, **k):
        pass

    def random(self):
        # only caller: RandomUtils.bool(prob): self.r.random() < prob
        f = sys._getframe(1)
        prob = f.f_locals.get('prob', 0.5)
        if prob <= 0:
            return 0.5          # forced False; 0.5 < prob is false
        if prob >= 1:
            return 0.0          # forced True
        pol = self.policy
        if isinstance(pol, tuple):
            pos = len(self.ns)
            base_idx = 0 if _u(pol[1], pos) < prob else 1
        else:
            base_idx = None
        c = self._pick(2, base_idx)
        return 0.0 if c == 0 else 1.0

    def choice(self, seq):
        n = len(seq)
        if n == 0:
            raise IndexError('Cannot choose from an empty sequence')
        f = sys._getframe(1)
        if f.f_code.co_name == 'char' and f.f_code.co_filename.endswith(_UTILS_SUFFIX):
            menu = CHAR_REPS
            return menu[self._pick(len(menu))]
        if n == 1:
            return seq[0]
        return seq[self._pick(n)]

    def randint(self, a, b):
        n = b - a + 1
        if n <= 0:
            raise ValueError('empty range for randint(%d, %d)' % (a, b))
        if n == 1:
            return a
        if n <= REP_INT_LIMIT:
            return a + self._pick(n)
        reps = {a, a + 1, (a + b) // 2, b - 1, b}
        for v in (-1, 0, 1):
            if a <= v <= b:
                reps.add(v)
        pol = self.policy
        if isinstance(pol, tuple):
            pos = len(self.ns)
            basev = a + min(n - 1, int(_u(pol[1], pos) * n))
            reps.add(basev)
            menu = sorted(reps)
            return menu[self._pick(len(menu), menu.index(basev))]
        menu = sorted(reps)
        return menu[self._pick(len(menu))]

    def sample(self, population, k):
        pop = list(population)
        if not 0 <= k <= len(pop):
            raise ValueError('Sample larger than population or is negative')
        out = []
        for _ in range(k):
            if len(pop) == 1:
                out.append(pop.pop())
            else:
                out.append(pop.pop(self._pick(len(pop))))
        return out

    def randrange(self, *a):
        raise NotImplementedError('randrange is not used by hephaestus')

    def shuffle(self, x):
        raise NotImplementedError('shuffle is not used by hephaestus')

    # ---- what the explorer reads ---------------------------------------------------------
    def unused_deviations(self):
        return sorted(set(self.dev) - self.used_dev)


def all_policies():
    return ['first', 'last', 'alt'] + [('prng', c) for c in range(1, 9)]


def policy_name(p):
    return p if isinstance(p, str) else 'prng%d' % p[1]


def policy_from_name(s):
    if s.startswith('prng'):
        return ('prng', int(s[4:]))
    return s
