/* Arena allocator for CPython that never returns memory to the OS.
 *
 * CPython 3.12 allocates interpreter data-stack chunks (deep recursion) and obmalloc arenas
 * with mmap and releases them with munmap.  hephaestus recurses deeply (deepcopy of types,
 * visitors), so an execution performs ~100 mmap/munmap pairs; in this sandbox (micro-VM, 16
 * vCPUs) those calls and the page faults that follow dominate the cost of an execution when 16
 * workers run in parallel.  Freed blocks are kept on per-size free lists and reused.
 * Pure performance aid for the harness: it does not touch /repo and has no effect on results.
 */
#define _GNU_SOURCE
#include <stddef.h>
#include <sys/mman.h>

#define NSIZES 64
typedef struct blk { struct blk *next; } blk;
static size_t sizes[NSIZES];
static blk *heads[NSIZES];
static int nsizes = 0;

static int slot(size_t size) {
    for (int i = 0; i < nsizes; i++) if (sizes[i] == size) return i;
    if (nsizes < NSIZES) { sizes[nsizes] = size; heads[nsizes] = 0; return nsizes++; }
    return -1;
}

void *ac_alloc(void *ctx, size_t size) {
    int s = slot(size);
    if (s >= 0 && heads[s]) { blk *b = heads[s]; heads[s] = b->next; return b; }
    void *p = mmap(0, size, PROT_READ | PROT_WRITE, MAP_PRIVATE | MAP_ANONYMOUS, -1, 0);
    return p == MAP_FAILED ? 0 : p;
}

void ac_free(void *ctx, void *ptr, size_t size) {
    int s = slot(size);
    if (s < 0) { munmap(ptr, size); return; }
    blk *b = (blk *)ptr; b->next = heads[s]; heads[s] = b;
}

typedef struct { void *ctx; void *(*alloc)(void *, size_t); void (*free)(void *, void *, size_t); } PyObjectArenaAllocator;
extern void PyObject_SetArenaAllocator(PyObjectArenaAllocator *);

int ac_install(void) {
    static PyObjectArenaAllocator a;
    a.ctx = 0; a.alloc = ac_alloc; a.free = ac_free;
    PyObject_SetArenaAllocator(&a);
    return 0;
}
