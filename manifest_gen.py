#!/usr/bin/env python3
"""Regenerates MANIFEST.json from the table below (keeps it schema-valid at all times)."""
import json

ALL = ['C%02d' % i for i in range(1, 20)]

CTE_NOTE = ('Trusted: CPython, the ChoiceSource seam (every random decision of /repo goes through src.utils.random.r), '
            'representative integer menus, word()/char() as data. Not covered: executions needing more simultaneous '
            'departures from every base schedule than the completed deviation bound.')

CHECKS = {
 'C01': dict(engine='CTE', category='model_checking', design_ref='5 C01',
   text='Every generated program of the explored executions (4 languages x 6 (thorough 16) switch vectors x base schedules '
        'x deviation bound, limits S/M/D) is checked by R-TC, an independent bidirectional reference type checker with its own '
        'scopes and its own subtyping: initializers, call/constructor arguments (with receiver and explicit type-argument '
        'substitution, renamed apart), function results, conditional branches against the expected type, assignments, '
        'explicit type arguments against bounds, abstract members, overrides, final superclasses, interface inheritance.',
   note=CTE_NOTE + ' R-TC is three-valued: positions it cannot type (members through projected receivers, bottom '
        'receivers) are counted as skipped, never reported; subtyping alarms use the liberal reading of R-SUB.',
   technique='stateless choice-tree exploration with an independent reference type checker as oracle'),
 'C02': dict(engine='CTE+javac', category='model_checking', design_ref='5 C02',
   text='Every distinct Java text of the generated and of the erased program of every explored execution (Java configs, '
        'several switch vectors) is compiled alone by the real javac 17 (-nowarn) and then again in batches of 2, 8 and 32 at '
        'different positions, with passing and with failing neighbours; every per-file verdict in a batch must equal the '
        'verdict alone. The Java adapter is run on the real command-line text of every failing batch and must blame exactly '
        'the files the structured diagnostics blame (C14 binding). Additionally every program of a hand-built program family (mc/progfam.py: 1 530 skeletons x language built through the real IR constructors -- generic calls fixed only by the expected type, constructors whose parameter occurs in no argument, constructor calls in receiver position, nested generic arguments, wider declared types, conditionals) is translated before and after erasure and compiled by javac (Java; programs whose unmutated translation javac rejects are counted and not judged).',
   note=CTE_NOTE + ' OpenJDK 17 javac is the judge; batch neighbours come from the same exploration unit.',
   technique='stateless choice-tree exploration with the real compiler as oracle (alone vs every batch position)'),
 'C03': dict(engine='CTE+javac', category='model_checking', design_ref='5 C03',
   text='For every explored execution (1 and 2 consecutive erasures): the structural diff before/after TypeErasure may '
        'contain only removed var/return types and can_infer_type_args set; the reference checker in INFERENCE mode (omitted '
        'types replaced by synthesised ones and used at later uses, expected types flowing down) finds no definite error; '
        'javac accepts the Java translation; and every OTHER subset of omittable annotations that is_combination_feasible '
        'accepts (functions with <=4, thorough <=7, omittable nodes) is applied, judged the same way and undone. Additionally every program of a hand-built program family (mc/progfam.py: 1 530 skeletons x language built through the real IR constructors -- generic calls fixed only by the expected type, constructors whose parameter occurs in no argument, constructor calls in receiver position, nested generic arguments, wider declared types, conditionals) goes through the real erasure (1 and 2 times) and the powerset of feasible subsets, judged the same way.',
   note=CTE_NOTE + ' Inference oracle reports only definite failures (Kotlin: type parameter occurring in no constructor '
        'parameter and no expected type; synthesised type not below the recorded one); Java additionally by javac.',
   technique='stateless choice-tree exploration + exhaustive powerset of feasible erasure subsets, judged by a reference checker and javac'),
 'C04': dict(engine='CTE+inner-DFS+javac', category='model_checking', design_ref='5 C04',
   text='(A) the overwriting result of every explored execution (deviations in every stage) and (B) for the erased program '
        'of every base execution the COMPLETE choice tree of TypeOverwriting.transform(): every candidate method x node x type '
        'parameter x replacement class (pool-building draws with <=1 deviation), each leaf on a fresh copy. Judged: exactly one '
        'declared-type slot differs; old/new unrelated under R-SUB; message names old type, new type, node; translation '
        'changes; reference checker reports a new error; javac rejects the Java text; no report => empty diff and identical text. Additionally every program of a hand-built program family (mc/progfam.py: 1 530 skeletons x language built through the real IR constructors -- generic calls fixed only by the expected type, constructors whose parameter occurs in no argument, constructor calls in receiver position, nested generic arguments, wider declared types, conditionals) (quick: one per initializer) gets the COMPLETE overwriting choice tree.',
   note=CTE_NOTE + ' javac is the definite judge for Java; for the other languages a mutation the reference checker does not '
        'reject is counted, not reported, unless the text is unchanged. Inner trees are capped (400 quick / 6000 thorough leaves).',
   technique='exhaustive choice-tree DFS of the real mutation on explored programs, judged by structural diff, reference relation and javac'),
 'C05': dict(engine='CTE', category='model_checking', design_ref='5 C05',
   text='Same exploration as C01 with the scope rules of the reference checker (own lexical scopes: every name use '
        'resolves, arity, non-final assignment targets, regular classes only) plus unique identifiers per scope, type '
        'variables in scope, Java capture rules and reserved words; plus a full sweep of all 52 062 words x 3 case '
        'transforms x 4 languages against the pool the real reserved-word filter leaves (authoritative keyword lists in '
        'the harness) and an exhaustive history search of the word()/reset contract on a 3-word pool.',
   note=CTE_NOTE + ' Contextual keywords that are legal identifiers are not in the lists.',
   technique='stateless choice-tree exploration with an independent scope resolver + exhaustive word-list sweep'),
 'C06': dict(engine='SSE', category='exploration', design_ref='5 C06',
   text='Type.is_subtype / is_assignable is compared with an independent declarative relation (with capture) on every '
        'ordered pair of well-formed types up to nesting depth 2 over every well-formed class table of a skeleton grammar '
        '(three families: 1-parameter inheritance with variance/bounds, 2-parameter classes incl. dependent bounds, nested '
        'constructors), for each builtin factory: soundness everywhere, exactness on the universe the property names, '
        'reflexivity, transitivity on all shallow triples, bottom, assignability. Only minimal unsound pairs are reported.',
   note='Trusted: R-SUB (mc/ref/rsub.py, 200 lines) in its literal and liberal readings; exactness judged only where both '
        'agree. Tables with >2 generic classes in a chain, >2 parameters, depth >2 are not covered.',
   technique='small-scope exhaustive enumeration of class tables x type pairs against a reference relation'),
 'C07': dict(engine='SSE+HBFS+CTE', category='model_checking', design_ref='5 C07',
   text='(a) every instantiation new(args) over the SSE tables (plain/projected/star/nested arguments) is compared, '
        'transitively up the hierarchy, with a reference substitution of the declared supertypes; empty-map identity and '
        'ground-map closure of substitute_type. (b) explicit-state search over all histories of length <=2 (thorough 3) of '
        'new / substitute_type / to_variance_free / to_type_variable_free / get_supertypes / is_subtype / get_type / '
        'find_subtypes on SHARED type objects: after every step all earlier objects and results keep their by-value '
        'snapshot. (c) receiver and arguments of every new()/substitute_type call of explored pipeline executions are '
        'pickled before and after. The constructor object carried by every transitive supertype must be the class as the current table declares it (names and variances), which exposes state shared between instantiations of same-named classes of consecutive tables.',
   note='Trusted: reference substitution on terms, reflective snapshots. The aliasing alphabet is one fixed pool of 15 shared objects.',
   technique='explicit-state search over operation histories on shared objects + small-scope enumeration against a reference substitution'),
 'C08': dict(engine='SSE+inner-DFS', category='model_checking', design_ref='5 C08',
   text='For every input of a small-scope universe (13 generic declarations incl. dependent/parameterized/variant bounds x '
        '4-5 pools incl. abstract classes, bare constructors, primitives x 6-9 pre-assignments x 5 variance maps x 4 switch '
        'vectors, both helpers) the COMPLETE choice tree of the helper is walked: every answer at every random draw. Each '
        'leaf is judged for arity, bounds (R-SUB), usable arguments, kept pre-assignments and projection permissions.',
   note='Trusted: R-SUB and the oracle reading of "consistent pre-assignment" (satisfiable along the bound chain). Inner '
        'trees are capped (reported); the universe of declarations is fixed.',
   technique='exhaustive choice-tree DFS of the real helper per input (stateless model checking of a randomised function)'),
 'C09': dict(engine='SSE+inner-DFS', category='model_checking', design_ref='5 C09',
   text='For SSE class tables x every query type (depth 1, all projections) x flag combinations, the inner choice tree of '
        'find_subtypes / find_irrelevant_type is walked (search-level draws fully, nested instantiation draws with <=1 '
        'deviation) and every returned type is judged by R-SUB: usable, below the query, self iff asked; irrelevant results '
        'flagged only when definitely related; nothing for the top type; type-variable queries against the bound.',
   note='Trusted: R-SUB. Quick: 7 tables, 400 leaves per query (capped queries are reported, exhaustive=false); thorough: all '
        'tables, 30 000 leaves.',
   technique='exhaustive choice-tree DFS of the real searches per (class table, query) against a reference relation'),
 'C10': dict(engine='SSE', category='exploration', design_ref='5 C10',
   text='unify_types (deterministic) is called on every (target, pattern, mode) triple of the SSE universes: targets = all '
        'well-formed ground types to depth 1 with all projections; patterns = plain, bounded, repeated, projected and nested '
        'variable patterns for every generic class, and the bare variable. A non-empty result is substituted back by a '
        'reference substitution and compared with the target / its supertypes; bounds by R-SUB.',
   note='Trusted: reference substitution/matcher (60 lines), R-SUB for bounds. Supertype mode compares with supertypes '
        'obtained by syntactic substitution (the capture issue is the recorded C06 finding).',
   technique='small-scope exhaustive enumeration of (target, pattern) pairs with a substitute-back oracle'),
 'C11': dict(engine='CTE+HBFS', category='model_checking', design_ref='5 C11',
   text='For every pipeline execution within the deviation bound, an explicit-state BFS over translation histories on '
        'long-lived translator objects (3 programs x 4 languages, depth 3, state merging on translator attributes; '
        'factorised per translator with an independence check on every transition) compares every text with a '
        'fresh-translator reference and every program snapshot with its pre-translation snapshot. Histories are exactly '
        'what a sample test cannot reach. Additionally every program of a hand-built program family (mc/progfam.py: 1 530 skeletons x language built through the real IR constructors -- generic calls fixed only by the expected type, constructors whose parameter occurs in no argument, constructor calls in receiver position, nested generic arguments, wider declared types, conditionals) (quick: one per initializer) is explored with every alternative of the overwriting mutation. Cross-program histories: all histories of length <=3 (thorough 4) over three hand-built programs that share identifiers with a different status (top-level function vs method, variable vs field, a nested function with four parameters) on one long-lived translator per language; every text must equal the reference recorded first, and fresh translators are re-checked after every history.',
   note=CTE_NOTE + ' Translator state = instance attributes + non-callable class attributes.',
   technique='stateless choice-tree exploration of the real pipeline + explicit-state BFS over translation histories against a fresh-translator reference'),
 'C12': dict(engine='CTE', category='model_checking', design_ref='5 C12',
   text='For every explored execution the generated, erased and overwritten program are translated to their target '
        'language by a fresh translator; the text is tokenized and scanned for class headers, val/var/def declarations with '
        'or without a type, fun/def declarations with or without a result type, constructor calls with/without type '
        'arguments, string literals and bracket balance, and compared per name (multisets) with an inventory computed from '
        'the IR by a reflective walker. Couples C03/C04 to the text: an erased annotation must be absent, a carried one present. Additionally every program of a hand-built program family (mc/progfam.py: 1 530 skeletons x language built through the real IR constructors -- generic calls fixed only by the expected type, constructors whose parameter occurs in no argument, constructor calls in receiver position, nested generic arguments, wider declared types, conditionals) (quick: one per initializer, thorough: the core subset) is explored with every alternative of the overwriting mutation; Groovy local functions are compared as closure variables (def iff no result type).',
   note=CTE_NOTE + ' Scanners cover: balance, classes and strings (all languages); variable/result typing (Kotlin, Scala, '
        'Groovy def, Java var); constructor type arguments (all). Method/parameter/modifier inventories are not scanned.',
   technique='stateless choice-tree exploration with per-language text scanners compared against an independent IR inventory'),
 'C13': dict(engine='CTE', category='model_checking', design_ref='5 C13',
   text='At every save point of every explored execution the live program goes through the real dump/load (and '
        '--replay path); snapshots, translations in 4 languages, a second dump, and the mutations replayed '
        'answer-by-answer from the recorded trace must all agree with the original. Every saved .bin is also reloaded in a NEW interpreter with a different string-hash seed (PYTHONHASHSEED 1 vs 0: what --replay is), translated to the four languages, dumped and reloaded again; and at every save point the history load ; mutate in place ; load again must return the saved program. Every save goes through the driver\'s own hephaestus.save_program (source + .bin, in the driver\'s order).',
   note=CTE_NOTE + ' The per-execution node-hash counter travels with the pickle (identity-hash order is neutralised).',
   technique='stateless choice-tree exploration with trace replay of the mutations on the reloaded program'),
 'C14': dict(engine='OUT', category='exploration', design_ref='5 C14',
   text='The real analyze_compiler_output of all four adapters is run on every output of a per-compiler output grammar '
        'within the bounds (<=3 files, <=2 errors and <=1 warning per file, every distinct order of the diagnostics, '
        'message variants, notes/summary/final-newline/filter/crash options, tempfile and user-TMPDIR path alphabets); '
        'ground truth by construction. Orders and mixes are what a handful of sample outputs cannot cover. Four javac crash-trace shapes and two kotlinc shapes are appended to every batch output.',
   note='kotlinc/groovyc/scalac are not installed: their grammars follow the documented formats (assumption). '
        'Filter patterns cover a whole diagnostic.',
   technique='bounded exhaustive enumeration of a compiler-output grammar (all orders/interleavings) against ground truth by construction'),
 'C15': dict(engine='DRV', category='model_checking', design_ref='5 C15',
   text='The real driver (gen_program, check_oracle, update_stats, _run, run, run_parallel) is run on every scripted '
        'session within the bounds: 7 (thorough 9) program behaviours per program x batch layouts up to 3 programs per '
        'batch / 3 batches x compiler crash per batch x sequential and worker-pool mode, and for each session every '
        'schedule of a virtual pool (all completion orders) and of package-name draws. Each complete run is compared '
        'with a reference decision table (faults, messages, saved test cases, leftovers, counters, json files). Package names of one batch are drawn so that each is a proper suffix of the corresponding name of the next program (art/heart, ear/near, ...).',
   note='Trusted: scripted compiler/program stages, the virtual pool (oracle tasks complete only at apply_async/get/join; '
        'pickle at the boundary), the 100-line reference model. At most 2 package-name reuses per session.',
   technique='exhaustive enumeration of scripted sessions x all schedules (stateless exploration with a virtual pool) against a reference decision table'),
 'C16': dict(engine='HBFS', category='model_checking', design_ref='5 C16',
   text='Explicit-state BFS over all add/remove histories of the real Context (96-event alphabet to depth 3, 32-event '
        'alphabet deeper; thorough: depth 4 / 5 / 7), lock-step with a scoped-map reference model written from the '
        'property statement; ~480 queries compared after every transition; states merged on the canonical form.',
   note='Trusted: the 150-line reference model. Restrictions: kind-consistent removals, 2 names, 4 namespaces; global '
        'queries judged as candidate sets.',
   technique='explicit-state BFS over operation histories on the real object against a reference model (state merging by canonical form)'),
 'C17': dict(engine='CTE', category='model_checking', design_ref='5 C17',
   text='All 16 switch vectors x 4 languages; every object reachable from the generated program is inspected by a '
        'reflective walker for the features each switch forbids. Exhaustive within the deviation bound.',
   note=CTE_NOTE,
   technique='stateless choice-tree exploration (deviation-bounded) with a syntactic absence scan of every type occurrence'),
 'C18': dict(engine='CTE', category='model_checking', design_ref='5 C18',
   text='Every stage of every explored execution must finish without exception, RecursionError (driver-equivalent '
        'head-room) or exceeding the 20 000 choice-point horizon; AST nesting and erasure-search work are bounded by '
        'counters. Base schedules are fair round-robins so retry loops are visible and terminate. Erasure search bound: the mutation\'s own max_combinations option is set to 3/5 so that the budget is reached (84 functions in the quick tier) and at most max_combinations+1 combinations may be examined. SESSION part: the real driver (_run, gen_program, gen_program_mul, --dry-run) generates 360 (thorough 1 200) programs in one batch and 360 as one pool worker, with the real word() over a pool scaled to 2 500 words (turned over 3-4 times): no program may fail internally, nothing may escape, counters must add up.',
   note=CTE_NOTE + ' The 600 s visitor timer is virtual (never fires); wall time is not an observable.',
   technique='stateless choice-tree exploration (deviation-bounded, fair base schedules) with work counters'),
 'C19': dict(engine='exhaustive-graphs', category='exploration', design_ref='5 C19',
   text='Every query of graph_utils is compared with a definition-level reference on ALL directed graphs with self '
        'loops up to 4 vertices (66 066 graphs, every vertex and ordered pair; thorough: plus all 2^20 loop-free '
        '5-vertex graphs). The functions are pure and their defects show up on graphs of <=4 vertices.',
   note='Trusted: the Floyd-Warshall/brute-force path reference (30 lines). Graphs larger than the bound are not covered.',
   technique='bounded exhaustive enumeration of all digraphs against a reference model (small-scope model checking of pure functions)'),
}

ENGINES = [
 {'name': 'CTE', 'path': 'mc/explore.py', 'serves_properties': ['C01', 'C02', 'C03', 'C04', 'C05', 'C07', 'C11', 'C12', 'C13', 'C17', 'C18'],
  'kind_free_text': 'stateless deviation-bounded explorer of the choice tree of the real pipeline (ChoiceSource replaces src.utils.random.r)'},
 {'name': 'javac-server', 'path': 'javasrv/CompileServer.java', 'serves_properties': ['C02', 'C14'],
  'kind_free_text': 'warm JVM compiling file sets with javax.tools (structured diagnostics) and com.sun.tools.javac.Main (CLI text)'},
 {'name': 'exhaustive-graphs', 'path': 'mc/props/c19.py', 'serves_properties': ['C19'],
  'kind_free_text': 'enumeration of all digraphs up to 4 (5) vertices'},
 {'name': 'SSE', 'path': 'mc/universe.py', 'serves_properties': ['C06', 'C07', 'C09', 'C10'],
  'kind_free_text': 'small-scope enumeration of class tables (skeleton grammar) and types built through the real constructors'},
 {'name': 'inner-DFS', 'path': 'mc/inner.py', 'serves_properties': ['C04', 'C08', 'C09'],
  'kind_free_text': 'complete enumeration of the random-choice tree of one helper call'},
 {'name': 'OUT', 'path': 'mc/ref/output_grammar.py', 'serves_properties': ['C14'],
  'kind_free_text': 'generative grammar of javac/kotlinc/groovyc/scalac batch output, exhaustively enumerated'},
 {'name': 'DRV', 'path': 'mc/drv.py', 'serves_properties': ['C15'],
  'kind_free_text': 'closed-system harness around hephaestus.py: scripted compiler and stages, virtual mp.Pool with explorer-chosen completion order'},
 {'name': 'HBFS', 'path': 'mc/props/c16.py', 'serves_properties': ['C16', 'C11'],
  'kind_free_text': 'explicit-state breadth-first search over operation histories, real object vs reference model'},
]

PENDING = 'check not built yet (work in progress); will be claimed when its engine lands'


def main():
    checks = []
    for pid in ALL:
        c = CHECKS.get(pid)
        if not c:
            continue
        checks.append({
            'property_id': pid,
            'quick_cmd': './check %s --tier quick' % pid,
            'thorough_cmd': './check %s --tier thorough' % pid,
            'evidence_file': 'evidence/%s.json' % pid,
            'replay_cmd_template': './check %s --replay {path}' % pid,
            'engine': c['engine'],
            'level_claimed': {'category': c['category'], 'text': c['text'], 'design_ref': c['design_ref']},
            'level_note': c['note'],
            'technique': c['technique'],
        })
    m = {
        'version': 1,
        'setup_cmd': './setup.sh',
        'hooks': {'guard': 'HEPHAESTUS_VERIF',
                  'enable': 'none needed: all instrumentation is applied by monkeypatching /repo modules at import time '
                            'from /verif/mc; /repo is imported in place from its working tree',
                  'baseline_off_cmd': 'cd /repo && /venv/bin/python -m pytest -q -p no:cacheprovider',
                  'source_commits': [], 'add_only': True},
        'engines': ENGINES,
        'checks': checks,
        'not_applicable': [{'property_id': p, 'reason': PENDING} for p in ALL if p not in CHECKS],
        'notes': 'see DESIGN.md; known_findings.json lists recorded findings and fixed defects',
    }
    json.dump(m, open('MANIFEST.json', 'w'), indent=1)
    print('MANIFEST.json: %d checks, %d not claimed' % (len(checks), len(m['not_applicable'])))


if __name__ == '__main__':
    main()
