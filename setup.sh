#!/bin/sh
# Build everything the checks need from files on disk only (offline).
set -e
cd "$(dirname "$0")"
mkdir -p build evidence
if [ -f javasrv/CompileServer.java ]; then
  javac -nowarn -d build javasrv/CompileServer.java
fi
echo "setup ok"
