#!/bin/sh
# Build everything the checks need from files on disk only (offline).
set -e
cd "$(dirname "$0")"
mkdir -p build evidence
gcc -O2 -shared -fPIC -o build/libarena_cache.so native/arena_cache.c || echo "arena cache not built (performance aid only)"
if [ -f javasrv/CompileServer.java ]; then
  javac -nowarn -d build javasrv/CompileServer.java
fi
echo "setup ok"
