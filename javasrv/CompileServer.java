import javax.tools.*;
import java.io.*;
import java.nio.charset.StandardCharsets;
import java.nio.file.*;
import java.util.*;

/**
 * Keeps one JVM alive and compiles sets of files on request (javac -nowarn, what
 * JavaCompiler.get_compiler_cmd of hephaestus uses).
 *
 * Request (stdin, one line):  S|T <file> <file> ...
 *   S = structured diagnostics only (javax.tools task with a DiagnosticCollector)
 *   T = additionally the text exactly as the command line compiler prints it
 *       (com.sun.tools.javac.Main.compile in the same JVM)
 * Response: "D <KIND> <code> <line> <file>\t<first line of message>" per diagnostic,
 *           "OK <true|false>", for T "TEXT <n>" followed by n lines, then "END".
 */
public class CompileServer {
    static void rmTree(Path p) {
        try (java.util.stream.Stream<Path> w = Files.walk(p)) {
            w.sorted(Comparator.reverseOrder()).map(Path::toFile).forEach(File::delete);
        } catch (IOException e) { /* ignore */ }
    }

    public static void main(String[] a) throws Exception {
        JavaCompiler jc = ToolProvider.getSystemJavaCompiler();
        BufferedReader in = new BufferedReader(new InputStreamReader(System.in, StandardCharsets.UTF_8));
        PrintStream out = new PrintStream(new FileOutputStream(FileDescriptor.out), false, "UTF-8");
        Path scratch = Paths.get(a.length > 0 ? a[0] : "/dev/shm");
        String line;
        while ((line = in.readLine()) != null) {
            line = line.trim();
            if (line.isEmpty()) continue;
            if (line.equals("QUIT")) break;
            String[] parts = line.split(" ");
            boolean text = parts[0].equals("T");
            String[] files = Arrays.copyOfRange(parts, 1, parts.length);
            Path outdir = Files.createTempDirectory(scratch, "cls");
            try {
                DiagnosticCollector<JavaFileObject> dc = new DiagnosticCollector<>();
                StandardJavaFileManager fm = jc.getStandardFileManager(dc, null, StandardCharsets.UTF_8);
                fm.setLocation(StandardLocation.CLASS_OUTPUT, Arrays.asList(outdir.toFile()));
                Iterable<? extends JavaFileObject> units = fm.getJavaFileObjects(files);
                StringWriter sw = new StringWriter();
                boolean ok;
                try {
                    ok = jc.getTask(sw, fm, dc, Arrays.asList("-nowarn", "-proc:none"), null, units).call();
                } catch (Throwable t) {
                    ok = false;
                    out.println("D CRASH compiler.crash 0 -\t" + t.toString().split("\n")[0]);
                }
                for (Diagnostic<? extends JavaFileObject> d : dc.getDiagnostics()) {
                    String src = d.getSource() == null ? "-" : d.getSource().getName();
                    String msg = d.getMessage(Locale.ENGLISH);
                    out.println("D " + d.getKind() + " " + d.getCode() + " " + d.getLineNumber() + " " + src
                                + "\t" + msg.split("\n")[0]);
                }
                fm.close();
                out.println("OK " + ok);
                if (text) {
                    rmTree(outdir);
                    Files.createDirectories(outdir);
                    StringWriter cli = new StringWriter();
                    PrintWriter pw = new PrintWriter(cli);
                    String[] args = new String[files.length + 4];
                    args[0] = "-nowarn"; args[1] = "-proc:none"; args[2] = "-d"; args[3] = outdir.toString();
                    System.arraycopy(files, 0, args, 4, files.length);
                    try {
                        com.sun.tools.javac.Main.compile(args, pw);
                    } catch (Throwable t) {
                        pw.println(t.toString());
                    }
                    pw.flush();
                    String[] lines = cli.toString().split("\n", -1);
                    out.println("TEXT " + lines.length);
                    for (String l : lines) out.println(l);
                }
            } finally {
                rmTree(outdir);
            }
            out.println("END");
            out.flush();
        }
    }
}
